"""C08 R-POLYARITH -- dense univariate addition, subtraction, schoolbook product and evaluation are the ring operations
on coefficient vectors, decided for small degrees by polynomial-constant propagation over the MIR.

Operands are DensePolynomial values whose coefficient vectors are concrete-length arrays of ring symbols a_0.., b_0..;
every integer (lengths, loop counters) is concrete.  Zero tests on a symbolic coefficient answer `false` (inputs in
GENERAL POSITION: no tested coefficient, and no computed leading coefficient, vanishes) -- so what is proved is the
coefficient-level identity on the branch taken by generic inputs; canonical form after cancellation is the subject of
R-CANON.*, zero operands of the shortcut arms in R-LINCOMB / R-NAIVEMUL.

  &a + &b, &a - &b   coefficient i is a_i +/- b_i (missing coefficients are 0), for all degree pairs <= 3, either operand longer
  naive_mul(a, b)    coefficient k is sum_{i+j=k} a_i b_j, degrees <= 3
  evaluate(a, x)     sum a_i x^i, degrees <= 4

Supplementary: no verdict when the engine cannot follow a reshaped body; a missing anchor fails closed."""
from arklib import symex as SX
from arklib.poly import Q
from rules import c07_dft

DP = "ark_poly::polynomial::univariate::dense::DensePolynomial"


def _first(md, H):
    def is_zero(ex, st, fr, t, a):
        v = ex.deref(a[0]) if len(a) == 1 else None
        q = SX.q_of(v) if not isinstance(v, SX.Obj) or v.name is not None else None
        if q is None:
            return NotImplemented
        if q.is_poly() and q.n.is_const():
            return q.n.const_value() == 0
        return False   # general position
    md.on(SX.by(None, "is_zero"), is_zero)

    def is_empty(ex, st, fr, t, a):
        d = ex.deref(a[0])
        return (len(d.fields) == 0) if isinstance(d, SX.Obj) and d.adt == "array" else NotImplemented
    md.on(SX.by(None, "is_empty"), is_empty)

    def end(which):
        def h(ex, st, fr, t, a):
            it = H["elems"](ex, a[0]) if len(a) == 1 else None
            if it is None:
                return NotImplemented
            return SX.some(it[which]) if it else SX.none()
        return h
    md.on(SX.by(None, ("last", "last_mut")), end(-1))
    md.on(SX.by(None, ("first", "first_mut")), end(0))

    def pop(ex, st, fr, t, a):
        d = ex.deref(a[0])
        if isinstance(d, SX.Obj) and d.adt == "array":
            if not d.fields:
                return SX.none()
            return SX.some(d.fields.pop(max(d.fields)))
        return NotImplemented
    md.on(SX.by(None, "pop"), pop)

    def quant(kind):
        def h(ex, st, fr, t, a):
            it = H["elems"](ex, a[0]) if len(a) == 2 else None
            if it is None:
                return NotImplemented
            for x in it:
                r = H["call_value"](ex, st, a[1], [x])
                if not isinstance(r, bool):
                    return NotImplemented
                if kind == "all" and not r:
                    return False
                if kind == "any" and r:
                    return True
            return kind == "all"
        return h
    def position(rev):
        def h(ex, st, fr, t, a):
            it = H["elems"](ex, a[0]) if len(a) == 2 else None
            if it is None:
                return NotImplemented
            idx = list(range(len(it)))
            for i in (reversed(idx) if rev else idx):
                r = H["call_value"](ex, st, a[1], [it[i]])
                if not isinstance(r, bool):
                    return NotImplemented
                if r:
                    return SX.some(i)
            return SX.none()
        return h
    md.on(SX.by(None, "position"), position(False))
    md.on(SX.by(None, "rposition"), position(True))
    md.on(SX.by(None, "all"), quant("all"))
    md.on(SX.by(None, "any"), quant("any"))

    def is_some_and(ex, st, fr, t, a):
        o = ex.deref(a[0])
        if isinstance(o, SX.Obj) and o.variant == "None":
            return False
        if isinstance(o, SX.Obj) and o.variant == "Some" and len(a) == 2:
            r = H["call_value"](ex, st, a[1], [o.fields[0]])
            return r if isinstance(r, bool) else NotImplemented
        return NotImplemented
    md.on(SX.by(None, "is_some_and"), is_some_and)

    def rfold(ex, st, fr, t, a):
        it = H["elems"](ex, a[0]) if len(a) == 3 else None
        if it is None:
            return NotImplemented
        acc = a[1]
        for x in reversed(it):
            acc = H["call_value"](ex, st, a[2], [acc, x])
            if acc is SX.TOP:
                return NotImplemented
        return acc
    md.on(SX.by(None, "rfold"), rfold)

    def resize(ex, st, fr, t, a):
        import copy
        d = ex.deref(a[0]) if len(a) == 3 else None
        n = ex.deref(a[1]) if len(a) == 3 else None
        if isinstance(d, SX.Obj) and d.adt == "array" and isinstance(n, int) and not isinstance(n, bool):
            k = len(d.fields)
            for i in range(k, n):
                d.fields[i] = copy.deepcopy(a[2])
            for i in range(n, k):
                d.fields.pop(i, None)
            return SX.Obj(adt="()")
        return NotImplemented
    md.on(SX.by(None, "resize"), resize)

    def clear(ex, st, fr, t, a):
        d = ex.deref(a[0]) if len(a) == 1 else None
        if isinstance(d, SX.Obj) and d.adt == "array":
            d.fields.clear()
            return SX.Obj(adt="()")
        return NotImplemented
    md.on(SX.by(None, "clear"), clear)

    def extend_from_slice(ex, st, fr, t, a):
        import copy
        d = ex.deref(a[0]) if len(a) == 2 else None
        src = ex.deref(a[1]) if len(a) == 2 else None
        if isinstance(d, SX.Obj) and d.adt == "array" and isinstance(src, SX.Obj) and src.adt == "array":
            k = len(d.fields)
            for j, i in enumerate(sorted(src.fields)):
                d.fields[k + j] = copy.deepcopy(src.fields[i])
            return SX.Obj(adt="()")
        return NotImplemented
    md.on(SX.by(None, "extend_from_slice"), extend_from_slice)


def _poly(nm, d):
    return SX.Obj(adt=DP, fields={0: SX.Obj(adt="array", fields={i: Q.var("%s%d" % (nm, i)) for i in range(d + 1)})})


def _run(facts, fn, args, out=None):
    """out = k: return the value behind the k-th (reference) argument after the call instead of the return value"""
    ex = SX.Engine(facts, "ws", c07_dft._models(_first), max_paths=8, max_depth=8, inline_limit=600, max_visits=100000)
    ex.strict_flow = True
    try:
        allp = ex.run(fn, args)
        paths = [p for p in allp if "panic" not in p.flags and "unmodelled:panic" not in p.flags]
        ex.last_all_panic = bool(allp) and all(("panic" in p.flags or "unmodelled:panic" in p.flags) and not (p.flags - {"panic", "unmodelled:panic", "diverge"}) for p in allp)
    except RecursionError:
        return None, "recursion limit"
    if not paths and ex.last_all_panic:
        return None, "panics"
    if len(paths) != 1 or paths[0].flags:
        return None, "not evaluable (%s)" % (sorted(paths[0].flags)[:4] if paths else "no path")
    if out is not None:
        return (ex.deref(paths[0].args.cell(out).v) if paths[0].args is not None else None), None
    return paths[0].ret, None


def _strip(cs):
    """coefficients modulo trailing constant zeros (canonical form is R-CANON's subject)"""
    cs = list(cs)
    while cs and cs[-1].is_poly() and cs[-1].n.is_const() and cs[-1].n.const_value() == 0:
        cs.pop()
    return cs


def _poly_tz(nm, d, tz):
    """degree-d operand followed by tz explicit zero coefficients (a non-canonical vector, reachable through DerefMut / coeffs)"""
    p = _poly(nm, d)
    for i in range(d + 1, d + 1 + tz):
        p.fields[0].fields[i] = Q.const(0)
    return p


def _coeffs(ret):
    if isinstance(ret, SX.Obj) and isinstance(ret.fields.get(0), SX.Obj) and ret.fields[0].adt == "array":
        vals = [SX.q_of(ret.fields[0].fields[i]) for i in sorted(ret.fields[0].fields)]
        return vals if all(v is not None for v in vals) else None
    return None


def check_polyarith(res, facts):
    rule = res.rule("R-POLYARITH", "DensePolynomial &a + &b, &a - &b, a += &b, a -= &b, a += (f, &b), naive_mul and evaluate are the coefficient-level ring operations for small degrees, inputs in general position, zero polynomials and vectors with explicit trailing zeros included for the sums [polynomial-constant propagation over the MIR]", 0)
    fns = [f for f in facts.fns(unit="ws", crate="ark_poly") if f.kind != "Closure" and "::tests::" not in f.id]
    proved = set()
    a = lambda i, d: Q.var("a%d" % i) if i <= d else Q.const(0)
    b = lambda i, d: Q.var("b%d" % i) if i <= d else Q.const(0)

    def byref2(name, trait):
        return [f for f in fns if f.name == name and f.trait_impl == trait and f.d["argc"] == 2
                and f.local_ty(1).startswith("&") and DP in f.local_ty(1) and f.local_ty(2).startswith("&") and DP in f.local_ty(2)]
    for name, trait, sign in (("add", "core::ops::arith::Add", 1), ("sub", "core::ops::arith::Sub", -1)):
        key = "ark_poly|&Dense %s &Dense" % ("+" if sign > 0 else "-")
        cand = byref2(name, trait)
        if not cand:
            rule.bad(key, "anchor missing")
            continue
        verdict = None
        for da in range(0, 4):
            for db in range(0, 4):
                ret, why = _run(facts, cand[0], [SX.Ref(SX.Cell(_poly("a", da))), SX.Ref(SX.Cell(_poly("b", db)))])
                cs = _coeffs(ret) if ret is not None else None
                if cs is None:
                    verdict = ("noverdict", "degrees (%d, %d): %s" % (da, db, why or "result not recovered"))
                    break
                want = [a(i, da) + (b(i, db) if sign > 0 else -b(i, db)) for i in range(max(da, db) + 1)]
                if len(cs) != len(want) or any(not g.equals(w) for g, w in zip(cs, want)):
                    verdict = ("bad", "degrees (%d, %d): the result has coefficients %s, expected %s" % (da, db, [str(c) for c in cs][:6], [str(w) for w in want][:6]))
                    break
            if verdict:
                break
        if verdict is None:
            rule.ok(key, "16 degree pairs: coefficient i is a_i %s b_i" % ("+" if sign > 0 else "-"), cand[0].loc)
        elif verdict[0] == "bad":
            rule.bad(key, verdict[1], cand[0].loc)
        else:
            rule.noverdict(key, "shape not modelled (%s)" % verdict[1], cand[0].loc)
    # degenerate operand shapes of the same operators (zero polynomial = empty vector; explicit trailing zero coefficients),
    # and the in-place twins; results compared modulo trailing constant zeros (canonical form is R-CANON's subject)
    shapes = [(da, 0, db, 0) for da in range(-1, 3) for db in range(-1, 3) if da < 0 or db < 0]
    shapes += [(da, 1, db, 0) for da in range(0, 2) for db in range(-1, 3)] + [(da, 0, db, 1) for da in range(-1, 3) for db in range(0, 2)]

    def sweep(fn, mk_args, out, want_of, pairs):
        for da, ta, db, tb in pairs:
            ret, why = _run(facts, fn, mk_args(_poly_tz("a", da, ta), _poly_tz("b", db, tb)), out)
            cs = _coeffs(ret) if ret is not None else None
            if cs is None and why == "panics" and (ta or tb):
                continue        # the operator refuses a non-canonical operand (degree() asserts canonical form): no statement
            if cs is None:
                return ("noverdict", "operands of degree %d (+%d zero coefficients) and %d (+%d): %s" % (da, ta, db, tb, why or "result not recovered"))
            want = _strip([want_of(i, da, db) for i in range(max(da, db, -1) + 1)])
            got = _strip(cs)
            if len(got) != len(want) or any(not g.equals(w) for g, w in zip(got, want)):
                return ("bad", "operands of degree %d (+%d explicit zero coefficients) and %d (+%d): the result has coefficients %s, expected %s"
                        % (da, ta, db, tb, [str(c) for c in got][:6], [str(w) for w in want][:6]))
        return None

    def settle(key, verdict, okmsg, loc):
        if verdict is None:
            rule.ok(key, okmsg, loc)
        elif verdict[0] == "bad":
            rule.bad(key, verdict[1], loc)
        else:
            rule.noverdict(key, "shape not modelled (%s)" % verdict[1], loc)

    for name, trait, sign in (("add", "core::ops::arith::Add", 1), ("sub", "core::ops::arith::Sub", -1)):
        cand = byref2(name, trait)
        if cand:
            v = sweep(cand[0], lambda x, y: [SX.Ref(SX.Cell(x)), SX.Ref(SX.Cell(y))], None,
                      lambda i, da, db, sign=sign: a(i, da) + (b(i, db) if sign > 0 else -b(i, db)), shapes)
            settle("ark_poly|&Dense %s &Dense|degenerate operands" % ("+" if sign > 0 else "-"), v,
                   "%d operand shapes with a zero polynomial or explicit trailing zero coefficients" % len(shapes), cand[0].loc)
    allpairs = [(da, 0, db, 0) for da in range(-1, 3) for db in range(-1, 3)] + [s for s in shapes if s[1] or s[3]]
    for name, trait, sign in (("add_assign", "core::ops::arith::AddAssign", 1), ("sub_assign", "core::ops::arith::SubAssign", -1)):
        cand = [f for f in fns if f.name == name and f.trait_impl == trait and f.d["argc"] == 2 and f.local_ty(1).startswith("&mut") and DP in f.local_ty(1)
                and f.local_ty(2).startswith("&") and DP in f.local_ty(2)]
        key = "ark_poly|Dense %s= &Dense" % ("+" if sign > 0 else "-")
        if not cand:
            rule.bad(key, "anchor missing")
            continue
        v = sweep(cand[0], lambda x, y: [SX.Ref(SX.Cell(x)), SX.Ref(SX.Cell(y))], 1,
                  lambda i, da, db, sign=sign: a(i, da) + (b(i, db) if sign > 0 else -b(i, db)), allpairs)
        settle(key, v, "%d operand shapes (degrees -1..2, zero polynomials and explicit trailing zeros included): self becomes a %s b" % (len(allpairs), "+" if sign > 0 else "-"), cand[0].loc)
    # self += (f, &other): the scaled in-place sum (absent anchor = no instance: the tuple form is optional API)
    cand = [f for f in fns if f.name == "add_assign" and f.trait_impl == "core::ops::arith::AddAssign" and f.d["argc"] == 2 and DP in f.local_ty(1)
            and f.local_ty(2).startswith("(") and DP in f.local_ty(2)]
    if cand:
        v = sweep(cand[0], lambda x, y: [SX.Ref(SX.Cell(x)), SX.Obj(adt="tuple", fields={0: Q.var("f"), 1: SX.Ref(SX.Cell(y))})], 1,
                  lambda i, da, db: a(i, da) + Q.var("f") * b(i, db), allpairs)
        settle("ark_poly|Dense += (f, &Dense)", v, "%d operand shapes: self becomes a + f b" % len(allpairs), cand[0].loc)
    # schoolbook product
    key = "ark_poly|Dense::naive_mul"
    cand = [f for f in fns if f.name == "naive_mul" and (f.self_head == DP or DP in f.id) and f.d["argc"] == 2]
    if not cand:
        rule.bad(key, "anchor missing")
    else:
        verdict = None
        for da in range(0, 4):
            for db in range(0, 4):
                ret, why = _run(facts, cand[0], [SX.Ref(SX.Cell(_poly("a", da))), SX.Ref(SX.Cell(_poly("b", db)))])
                cs = _coeffs(ret) if ret is not None else None
                if cs is None:
                    verdict = ("noverdict", "degrees (%d, %d): %s" % (da, db, why or "result not recovered"))
                    break
                want = []
                for k in range(da + db + 1):
                    tot = Q.const(0)
                    for i in range(da + 1):
                        if 0 <= k - i <= db:
                            tot = tot + a(i, da) * b(k - i, db)
                    want.append(tot)
                if len(cs) != len(want) or any(not g.equals(w) for g, w in zip(cs, want)):
                    verdict = ("bad", "degrees (%d, %d): the product has coefficients %s, expected the convolution %s" % (da, db, [str(c) for c in cs][:5], [str(w) for w in want][:5]))
                    break
            if verdict:
                break
        if verdict is None:
            rule.ok(key, "16 degree pairs: coefficient k is sum_{i+j=k} a_i b_j", cand[0].loc)
            proved.add("naive_mul")
        elif verdict[0] == "bad":
            rule.bad(key, verdict[1], cand[0].loc)
        else:
            rule.noverdict(key, "shape not modelled (%s)" % verdict[1], cand[0].loc)
    # evaluation
    key = "ark_poly|Dense::evaluate"
    cand = [f for f in fns if f.name == "evaluate" and f.self_head == DP and (f.trait_impl or "").endswith("Polynomial") and f.d["argc"] == 2]
    if not cand:
        rule.bad(key, "anchor missing")
    else:
        verdict = None
        for da in range(0, 5):
            ret, why = _run(facts, cand[0], [SX.Ref(SX.Cell(_poly("a", da))), SX.Ref(SX.Cell(Q.var("x")))])
            got = SX.q_of(ret) if ret is not None else None
            if got is None:
                verdict = ("noverdict", "degree %d: %s" % (da, why or "result is not a ring value"))
                break
            want = Q.const(0)
            xp = Q.const(1)
            for i in range(da + 1):
                want = want + a(i, da) * xp
                xp = xp * Q.var("x")
            if not got.equals(want):
                verdict = ("bad", "degree %d: evaluate returns %s, expected sum a_i x^i" % (da, str(got)[:160]))
                break
        if verdict is None:
            rule.ok(key, "degrees 0..4: sum a_i x^i", cand[0].loc)
        elif verdict[0] == "bad":
            rule.bad(key, verdict[1], cand[0].loc)
        else:
            rule.noverdict(key, "shape not modelled (%s)" % verdict[1], cand[0].loc)
    return proved
