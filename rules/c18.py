"""C18 — container and derived serializations round-trip, size exactly, fail cleanly: structural clauses.

  R-FLOW.*      compress / validate flags reach every inner call of serialize_with_mode,
                serialized_size and deserialize_with_mode (ark-serialize impls, derive output in
                /verif/witness/shapes, ff/ec/poly users); mode-pinning wrappers pass their pinned pair.
  R-TAINT       a length read from the stream never sizes an allocation (with_capacity / reserve /
                resize / vec![_; n]) without passing a bound.
  R-TRIO.order  writer, reader and size function of one type visit the same sub-objects in the same
                order (sequence of inner calls by receiver field / element type).
  R-ERRARM      malformed input takes an error arm: bool decoding has an Err arm for bytes other than
                0/1, String maps the UTF-8 error, the u64 -> usize conversion error is mapped; no
                unwrap/expect on stream-derived data in ark-serialize's readers.
"""
from arklib import dataflow as DF
from arklib.facts import op_local, op_place, place_parts, closure_args
from rules import serflow

UNITS = ["ws", "curves", "shapes"]
SINKS = {"with_capacity": 0, "reserve": 1, "reserve_exact": 1, "resize": 1, "from_elem": 1, "with_capacity_in": 0, "try_reserve": 1}
READERS = {"deserialize_with_mode", "deserialize_compressed", "deserialize_uncompressed", "deserialize_compressed_unchecked", "deserialize_uncompressed_unchecked", "deserialize_with_flags", "read_exact", "read"}
BOUNDS = {"min", "clamp", "checked_mul", "checked_add", "saturating_sub"}


def check_taint(res, facts):
    rule = res.rule("R-TAINT", "no allocation is sized by a length taken from the input stream without a bound", 1)
    n_fns = 0
    n_sinks = 0
    for fn in facts.fns():
        if fn.unit not in UNITS or "::tests::" in fn.id or "::test::" in fn.id:
            continue
        root = fn.id if fn.kind != "Closure" else fn.d.get("parent", "")
        if not ("deserialize" in root.rsplit("::", 1)[-1] or "::deserialize" in root or "::read_" in root):
            continue
        n_fns += 1
        sinks = [(bb, t) for bb, t in fn.calls() if t["f"].get("name") in SINKS and ("alloc::" in t["f"].get("path", "") or "arrayvec" in t["f"].get("path", ""))]
        if not sinks:
            continue
        dep = DF.Dep(fn)
        for bb, t in sinks:
            n_sinks += 1
            idx = SINKS[t["f"]["name"]]
            if idx >= len(t["args"]):
                continue
            a = t["args"][idx]
            l = op_local(a)
            key = "%s|%s|%s" % (fn.crate, fn.id[-140:], t["f"]["name"])
            if l is None:
                rule.ok(key, "constant size", fn.loc)
                continue
            calls = dep.calls_in_slice([l])
            tainted = [c for _, c in calls if c["f"].get("name") in READERS]
            bounded = [c for _, c in calls if c["f"].get("name") in BOUNDS]
            if tainted and not bounded:
                rule.bad(key, "%s(n) where n derives from %s read from the input: an oversized length prefix panics ('capacity overflow') or allocates without bound" % (t["f"]["name"], tainted[0]["f"].get("name")), "%s (line %s)" % (fn.loc, t.get("ln")))
            else:
                rule.ok(key, "size not derived from the stream" if not tainted else "bounded by %s" % bounded[0]["f"].get("name"), fn.loc)
    # the rule's expected count of violations is zero: keep a positive witness that the sink table still matches something
    rule.ok("witness|readers-scanned", "%d deserializer bodies scanned, %d allocation sinks seen" % (n_fns, n_sinks))
    if n_fns < 40:
        rule.bad("witness|floor", "only %d deserializer bodies found (expected >= 40): anchor lost" % n_fns)


def check_errarms(res, facts):
    rule = res.rule("R-ERRARM", "malformed input is mapped to Err: invalid bool byte, invalid UTF-8, length conversion; no unwrap/expect on stream data in the readers", 4)
    ser = [f for f in facts.fns(unit="ws", crate="ark_serialize") if "::test" not in f.id]
    # bool
    for fn in ser:
        if fn.name == "deserialize_with_mode" and fn.impl and fn.impl.get("self") == "bool":
            key = "ark_serialize|bool::deserialize_with_mode"
            sw = [b["t"] for b in fn.bbs if b["t"]["k"] == "switch" and set(b["t"]["vals"]) >= {0, 1}]
            ok = False
            for t in sw:
                # otherwise-arm must lead to an Err construction
                r = fn.reachable_from(t["else"])
                for bb in r:
                    for s in fn.bbs[bb]["s"]:
                        rr = s.get("r", {})
                        if rr.get("k") == "agg" and rr.get("variant") == "Err":
                            ok = True
                # and the 0/1 arms must not reach that Err
            if ok:
                rule.ok(key, "bytes other than 0/1 reach Err", fn.loc)
            else:
                rule.bad(key, "no error arm for a byte that is neither 0 nor 1", fn.loc)
    # String
    for fn in ser:
        if fn.name == "deserialize_with_mode" and fn.impl and fn.impl.get("self") == "alloc::string::String":
            key = "ark_serialize|String::deserialize_with_mode"
            names = [t["f"].get("name") for _, t in fn.calls()]
            if "from_utf8" in names and "map_err" in names and "from_utf8_unchecked" not in names and "from_utf8_lossy" not in names:
                rule.ok(key, "from_utf8 error mapped", fn.loc)
            else:
                rule.bad(key, "UTF-8 validation error is not mapped to SerializationError (calls: %s)" % names, fn.loc)
    # length prefix conversion
    for fn in ser:
        if fn.name == "deserialize_with_mode" and fn.kind != "Closure":
            names = [t["f"].get("name") for _, t in fn.calls()]
            if "try_into" in names:
                key = "ark_serialize|%s|len-conversion" % fn.id[-110:]
                if "map_err" in names:
                    rule.ok(key, "try_into error mapped", fn.loc)
                else:
                    rule.bad(key, "u64 -> usize conversion error not mapped", fn.loc)
    # unwrap / expect in readers
    for fn in ser:
        root = fn.id if fn.kind != "Closure" else fn.d.get("parent", "")
        if "deserialize" not in root:
            continue
        for bb, t in fn.calls():
            if t["f"].get("name") in ("unwrap", "expect") and not t.get("mac"):
                key = "ark_serialize|%s|%s" % (fn.id[-110:], t["f"]["name"])
                # the only accepted site: ArrayVec::into_inner().ok().unwrap() after exactly N pushes
                dep = DF.Dep(fn)
                feeding = [c["f"].get("name") for _, c in dep.calls_in_slice([op_local(t["args"][0])]) if op_local(t["args"][0]) is not None]
                if "into_inner" in feeding:
                    rule.ok(key, "unwrap of ArrayVec::into_inner after a loop of exactly N pushes (length is the const generic, not input data)", fn.loc)
                else:
                    rule.bad(key, "%s() on a value derived from %s inside a reader: malformed input can panic" % (t["f"]["name"], feeding[:4]), fn.loc)


def inner_sequence(facts, fn, names):
    """ordered abstraction of the inner (de)serialization calls of one method: list of element descriptors"""
    seq = []
    # order by a DFS over the CFG following the first successor first (source order for straight-line bodies)
    seen = set()
    order = []
    st = [0]
    while st:
        b = st.pop()
        if b in seen:
            continue
        seen.add(b)
        order.append(b)
        for s in reversed(fn.succ()[b]):
            st.append(s)
    for b in order:
        t = fn.bbs[b]["t"]
        if t["k"] == "call" and t["f"].get("name") in names and t["f"].get("trait", "").startswith("ark_serialize::"):
            seq.append((t["f"].get("self", "?")))
    return seq


def straight_line(facts, fn):
    """every inner ark_serialize call lies on every normal path (dominates the Ok exit); no closures, no loops"""
    if facts.closures_of(fn):
        return False
    exits = fn.exits()
    if len(exits) != 1:
        return False
    # the block that produces the normal result: walk back from the exit through single predecessors is
    # fragile; use domination of the exit by the *continue* edge of each `?` instead: a call qualifies
    # if every path from it that does not construct an Err reaches the exit -- approximated by: the call
    # block dominates the last inner call block, and the last inner call block is post-dominated only by exits
    calls = [bb for bb, t in fn.calls() if t["f"].get("trait", "").startswith("ark_serialize::") and t["f"].get("name", "").startswith(("serialize", "deserialize", "serialized_size", "compressed_size", "uncompressed_size"))]
    if not calls:
        return True
    for bb in calls:
        if bb in fn.reachable_from(fn.succ()[bb][0]) if fn.succ()[bb] else False:
            return False   # on a cycle
    last = calls[-1]
    order = sorted(calls, key=lambda b: sum(1 for c in calls if fn.dominates(c, b)))
    last = order[-1]
    return all(fn.dominates(c, last) for c in calls)


def check_trio(res, facts):
    rule = res.rule("R-TRIO.order", "serialize_with_mode, serialized_size and deserialize_with_mode of one impl visit the same element types in the same order", 10)
    groups = {}
    for fn in facts.fns():
        if fn.unit not in UNITS or fn.kind == "Closure" or "::tests::" in fn.id or "::test::" in fn.id:
            continue
        if not fn.trait_impl or not fn.trait_impl.startswith("ark_serialize::Canonical"):
            continue
        if fn.name not in ("serialize_with_mode", "serialized_size", "deserialize_with_mode"):
            continue
        groups.setdefault((fn.unit, fn.crate, fn.impl["self"]), {})[fn.name] = fn
    for (unit, crate, ty), g in sorted(groups.items()):
        if len(g) < 3:
            continue
        w = inner_sequence(facts, g["serialize_with_mode"], {"serialize_with_mode", "serialize_with_flags", "serialize_compressed", "serialize_uncompressed"})
        r = inner_sequence(facts, g["deserialize_with_mode"], {"deserialize_with_mode", "deserialize_with_flags", "deserialize_compressed", "deserialize_uncompressed"})
        s = inner_sequence(facts, g["serialized_size"], {"serialized_size", "serialized_size_with_flags", "compressed_size", "uncompressed_size"})
        if not (w or r or s) or len(w) < 2:
            continue   # leaf types and single-element wrappers carry no ordering obligation
        if not all(straight_line(facts, g[m]) for m in g):
            continue   # bodies with closures / loops / data-dependent arms are outside this rule's abstraction
        # loops/iterators make a call appear once; compare as sequences of receiver types
        norm = lambda q: [x.replace("&mut ", "").replace("&", "").strip() for x in q]
        key = "%s|%s" % (crate, ty[-120:])
        if norm(w) == norm(r) == norm(s):
            rule.ok(key, "order: %s" % [x[-30:] for x in w][:6], g["serialize_with_mode"].loc)
        elif sorted(norm(w)) == sorted(norm(r)) == sorted(norm(s)):
            rule.bad(key, "writer, reader and size visit the same fields in different orders: write=%s read=%s size=%s" % ([x[-30:] for x in w], [x[-30:] for x in r], [x[-30:] for x in s]), g["serialize_with_mode"].loc)
        else:
            # different multisets: could be a generic-type spelling difference; only flag when lengths differ
            if len(w) == len(r) == len(s):
                rule.undecided(key, "element type spellings differ: %s / %s / %s" % (w, r, s), g["serialize_with_mode"].loc)
            else:
                rule.bad(key, "writer, reader and size do not visit the same number of sub-objects: write=%d read=%d size=%d" % (len(w), len(r), len(s)), g["serialize_with_mode"].loc)


# ---- R-WHOLE ---------------------------------------------------------------------------------------------

CONTAINERS = ("alloc::vec::Vec<", "alloc::collections::vec_deque::VecDeque<", "alloc::collections::linked_list::LinkedList<", "[T]",
              "alloc::string::String", "alloc::collections::btree::map::BTreeMap<", "alloc::collections::btree::set::BTreeSet<", "[T; N]",
              "num_bigint::biguint::BigUint")
WHOLE_VIEW = {"iter", "as_slice", "as_bytes", "to_bytes_le", "as_ref", "keys_values", "len", "is_empty", "as_str", "make_contiguous"}
PARTIAL_VIEW = {"as_slices", "as_mut_slices", "first", "last", "split_at", "split_first", "split_last", "get", "take", "skip", "chunks", "front", "back",
                "first_key_value", "last_key_value", "range", "step_by", "nth", "windows", "pop_front", "pop_back", "peek"}


def check_whole(res, facts):
    """sequence / map serializers write (and size) every element: whatever they iterate over or delegate to is a
    whole-container view of self"""
    from rules.c07 import E, show
    rule = res.rule("R-WHOLE", "container serializers traverse the whole container (no partial view such as as_slices().0 / first / take)", 16)
    for f in facts.fns(unit="ws", crate="ark_serialize"):
        if f.kind == "Closure" or f.name not in ("serialize_with_mode", "serialized_size"):
            continue
        if not (f.trait_impl or "").endswith("CanonicalSerialize"):
            continue
        slf = (f.impl or {}).get("self", "")
        if not slf.startswith(CONTAINERS):
            continue
        key = "ark_serialize|%s|%s" % (slf.split("<")[0].rsplit("::", 1)[-1] if "::" in slf else slf, f.name)
        sources = []
        for _, t in f.calls():
            n = t["f"].get("name")
            if t.get("mac") or not t["args"]:
                continue
            if n in ("serialize_seq", "get_serialized_size_of_seq", "serialize_with_mode", "serialized_size", "map", "next", "sum", "try_for_each", "for_each", "fold", "try_fold"):
                sources.append(E(f, t["args"][0]))
        verdict, why = None, None
        n_whole = 0
        for src in sources:
            t = src
            hops = 0
            while isinstance(t, tuple) and hops < 10:
                hops += 1
                if t[0] == "arg":
                    if t[1] == 1:
                        n_whole += 1
                    break
                if t[0] == "call":
                    nm = t[1]
                    if len(t) > 3 and t[3] and nm not in ("next",):
                        # a component of a call result, e.g. as_slices().0
                        if nm in PARTIAL_VIEW or True:
                            verdict, why = "bad", "%s%s" % (nm, "".join("." + x for x in t[3] if isinstance(x, str)))
                        break
                    if nm in PARTIAL_VIEW:
                        verdict, why = "bad", nm
                        break
                    if nm in WHOLE_VIEW or nm in ("next", "map", "sum", "is_some"):
                        if not t[2]:
                            break
                        t = t[2][0]
                        continue
                    if verdict is None:
                        verdict, why = "undecided", nm
                    break
                break
        if verdict == "bad":
            rule.bad(key, "the data written / sized comes from `%s` of self, a partial view of the container: elements outside it are silently dropped, so the encoding does not round-trip" % why, f.loc)
        elif verdict == "undecided":
            rule.undecided(key, "source of the elements goes through `%s`, not known to be a whole-container view" % why, f.loc)
        elif n_whole:
            rule.ok(key, "iterates / delegates over all of self", f.loc)
        else:
            rule.undecided(key, "no element source found (%s)" % [show(x)[:60] for x in sources], f.loc)


def check_lentype(res, facts):
    """the writer emits `len() as u64` for every container; a reader that converts the prefix to a narrower integer
    (e.g. through an un-annotated `try_into()` that falls back to i32) rejects containers the writer accepts"""
    rule = res.rule("R-LENTYPE", "readers convert the u64 length prefix to an integer type that holds every usize", 3)
    wide = ("usize", "u64", "u128")
    bits = {"u8": 8, "i8": 8, "u16": 16, "i16": 16, "u32": 32, "i32": 32, "i64": 64, "isize": 64, "i128": 128}
    for f in facts.fns():
        if not (f.name in ("deserialize_with_mode", "deserialize_with_flags") or (f.kind == "Closure" and "deserialize_with_mode" in f.id)):
            continue
        if "::test" in f.id:
            continue
        # the conversion may sit in the reader itself or in a helper of the same crate it calls (e.g. a shared
        # `read the length prefix` function); each reader is one instance
        hosts = [(f, "")] + [(c, " (in helper %s)" % c.name) for _, _, c in DF.local_callees(facts, f) if c.name not in ("deserialize_with_mode", "deserialize_with_flags")]
        for h, where in hosts:
            for bb, t in h.calls():
                ta = t["f"].get("targs") or []
                if t["f"].get("name") in ("try_into", "try_from") and len(ta) >= 2 and "u64" in ta[:2]:
                    dst = ta[1] if ta[0] == "u64" else ta[0]
                    key = "%s|%s|%s" % (f.crate, f.id[-110:], t["f"]["name"])
                    if dst in wide:
                        rule.ok(key, "u64 -> %s%s" % (dst, where), h.loc)
                    else:
                        rule.bad(key, "the length prefix is converted to %s (%s)%s: a container with 2^%d or more elements is written by the serializer but rejected by this reader, so it does not round-trip" % (dst, "integer-literal fallback of an un-annotated try_into()" if dst == "i32" else "narrower than usize", where, bits.get(dst, 64) - (1 if dst.startswith("i") else 0)), "%s (line %s)" % (h.loc, t.get("ln")))


def check_seqsize(res, facts):
    """every length-prefixed container goes through serialize_seq / get_serialized_size_of_seq: the writer emits the
    length as one fixed-width integer and then every element of the iterator; the size function adds exactly the width
    of that integer type to the sum of the element sizes"""
    from rules.c07 import E, show
    rule = res.rule("R-SEQSIZE", "sequence helpers: size = width of the length prefix as written + sum over all elements; writer = prefix then every element", 2)
    fns = {f.name: f for f in facts.fns(unit="ws", crate="ark_serialize") if f.kind != "Closure" and f.name in ("serialize_seq", "get_serialized_size_of_seq") and "::impls::" in f.id}
    w, z = fns.get("serialize_seq"), fns.get("get_serialized_size_of_seq")
    if w is None or z is None:
        rule.bad("ark_serialize|seq helpers", "anchor missing")
        return
    WIDTH = {"u8": 1, "u16": 2, "u32": 4, "u64": 8, "u128": 16}
    sers = [(bb, t) for bb, t in w.calls() if t["f"].get("name") == "serialize_with_mode"]
    problems = []
    prefix_ty = None
    if len(sers) == 1:
        # elements written by a closure: seq.try_for_each(|item| item.serialize_with_mode(..))
        pre = sers[0][1]
        prefix_ty = pre["f"].get("self")
        if prefix_ty not in WIDTH or E(w, pre["args"][0]) != ("call", "len", (("arg", 1, ()),)):
            problems.append("the prefix written is %s of type %s, expected the iterator's len() as a fixed-width integer" % (show(E(w, pre["args"][0]))[:60], prefix_ty))
        drivers = [(bb, t) for bb, t in w.calls() if t["f"].get("name") in ("try_for_each", "for_each") and len(t["args"]) == 2]
        ok_el = False
        for bb, t in drivers:
            cl = [facts.get(c_, w.unit) for c_ in closure_args(w, t)]
            cl = [c_ for c_ in cl if c_ is not None]
            src = E(w, t["args"][0])
            if cl and src == ("arg", 1, ()) and any(tt["f"].get("name") == "serialize_with_mode" and show(E(cl[0], tt["args"][0])).startswith("arg2") for _, tt in cl[0].calls()) and w.dominates(sers[0][0], bb):
                ok_el = True
        if not ok_el:
            problems.append("after the prefix, the elements of the iterator are not each serialized")
        if any(t["f"].get("name") in ("skip", "take", "step_by", "filter", "rev") for _, t in w.calls()):
            problems.append("an adaptor changes which elements are written")
    elif len(sers) != 2:
        problems.append("expected the prefix and one per-element serialization, found %d serialize_with_mode calls" % len(sers))
    else:
        sers.sort(key=lambda x: x[0])
        pre, el = sers[0][1], sers[1][1]
        if not w.dominates(sers[0][0], sers[1][0]):
            problems.append("the length prefix is not written before the elements")
        prefix_ty = pre["f"].get("self")
        if prefix_ty not in WIDTH or E(w, pre["args"][0]) != ("call", "len", (("arg", 1, ()),)):
            problems.append("the prefix written is %s of type %s, expected the iterator's len() as a fixed-width integer" % (show(E(w, pre["args"][0]))[:60], prefix_ty))
        src = E(w, el["args"][0])
        if not (isinstance(src, tuple) and src[:3] == ("call", "next", (("arg", 1, ()),))):
            problems.append("elements are taken from %s, not from every item of the iterator" % show(src)[:80])
        if any(t["f"].get("name") in ("skip", "take", "step_by", "filter", "rev") for _, t in w.calls()):
            problems.append("an adaptor changes which elements are written")
    (rule.bad if problems else rule.ok)("ark_serialize|serialize_seq", "; ".join(problems) if problems else "len() as %s, then every element in order" % prefix_ty, w.loc)
    problems = []
    ret = E(z, {"c": 0})
    K = None
    if isinstance(ret, tuple) and ret[:2] == ("bin", "Add"):
        ints = [x for x in ret[2:4] if isinstance(x, int)]
        K = ints[0] if len(ints) == 1 else None
    if K is None:
        problems.append("the size is %s, not `constant + sum of element sizes`" % show(ret)[:100])
    elif prefix_ty in WIDTH and K != WIDTH[prefix_ty]:
        problems.append("the size function adds %d bytes for the length prefix, but the writer emits it as %s (%d bytes): reported size and bytes written differ for every container" % (K, prefix_ty, WIDTH[prefix_ty]))
    txt = show(ret)
    sizes_in = [c for c in [z] + facts.closures_of(z) if any(t["f"].get("name") == "serialized_size" for _, t in c.calls())]
    whole = "sum(map(arg1" in txt or any(E(z, t["args"][0]) == ("arg", 1, ()) for _, t in z.calls() if t["f"].get("name") == "next")
    if not sizes_in or not whole or any(t["f"].get("name") in ("skip", "take", "step_by", "filter") for _, t in z.calls()):
        problems.append("the element part does not sum serialized_size over every item of the iterator")
    (rule.bad if problems else rule.ok)("ark_serialize|get_serialized_size_of_seq", "; ".join(problems) if problems else "%s + sum of serialized_size over all items" % K, z.loc)


def run(ctx, res):
    facts = ctx.facts(UNITS)
    res.analysed = facts.stats()
    rc = res.rule("R-FLOW.compress", "every inner call of serialize_with_mode / serialized_size / deserialize_with_mode receives the caller's compress flag (or the wrapper's pinned constant)", 200)
    rv = res.rule("R-FLOW.validate", "validate is passed through, or pinned to No and compensated by check/batch_check on the Yes arm", 100)
    serflow.check_flow(rc, rv, facts, UNITS, name_filter=("deserialize_with_mode", "serialize_with_mode", "serialized_size"))
    check_taint(res, facts)
    check_errarms(res, facts)
    check_trio(res, facts)
    check_whole(res, facts)
    check_lentype(res, facts)
    check_seqsize(res, facts)
    return {
        "level": "other",
        "explanation": "Dataflow rules over the MIR of every CanonicalSerialize/CanonicalDeserialize impl in the workspace, the curve crates and the derive-macro output compiled in /verif/witness/shapes: mode-flag propagation, stream-length taint to allocation sinks, presence of error arms for malformed input, and agreement of writer/reader/size visiting order. Does NOT decide value equality of a round trip nor exact byte counts.",
        "assumptions": ["inner impls obey the same contract (checked separately, same rule)", "read_exact is the only primitive that consumes input"],
    }
