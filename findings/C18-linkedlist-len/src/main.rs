use ark_serialize::{CanonicalDeserialize, CanonicalSerialize};
use std::collections::LinkedList;

fn main() {
    // Vec<()> and LinkedList<()> share the wire format (u64 length prefix, then the elements; `()` is empty).
    let n = 1usize << 31;
    let v: Vec<()> = vec![(); n];
    let mut bytes = Vec::new();
    v.serialize_compressed(&mut bytes).unwrap();
    println!("serialization of a sequence of 2^31 units: {:?}", bytes);

    // A 3-element list serializes to the prefix 3: same writer for both containers.
    let mut small = Vec::new();
    LinkedList::from([(), (), ()]).serialize_compressed(&mut small).unwrap();
    println!("serialization of LinkedList [(), (), ()]:   {:?}", small);

    // The reader must at least get past the length prefix.  With T = u8 and only 3 payload bytes a correct reader
    // fails with an I/O error after three elements; the length conversion itself must not reject 2^31.
    let mut short = bytes.clone();
    short.extend_from_slice(&[1, 2, 3]);
    println!("Vec<u8>        <- prefix 2^31 + 3 bytes: {:?}", Vec::<u8>::deserialize_compressed(&short[..]).map(|v| v.len()));
    println!("LinkedList<u8> <- prefix 2^31 + 3 bytes: {:?}", LinkedList::<u8>::deserialize_compressed(&short[..]).map(|v| v.len()));
    let mut ok = ((1u64 << 31) - 1).to_le_bytes().to_vec();
    ok.extend_from_slice(&[1, 2, 3]);
    println!("LinkedList<u8> <- prefix 2^31-1 + 3 bytes: {:?}", LinkedList::<u8>::deserialize_compressed(&ok[..]).map(|v| v.len()));
}
