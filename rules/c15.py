"""C15 — fixed-width big integers: structural clauses.

  R-LIMB     the limb primitives (adc, adc_for_add_with_carry, adc_no_carry, sbb,
             sbb_for_sub_with_borrow, mac, mac_discard, mac_with_carry) satisfy their word-level
             specification  a + b + c = lo + 2^64 * carry  (resp. a - b - borrow = lo - 2^64 * borrow_out,
             a + b*c [+ carry] = lo + 2^64 * carry_out) as a polynomial identity modulo the
             decomposition axioms x = (x mod 2^64) + 2^64 * (x >> 64) of the u128 intermediates.
  R-CHAIN    in add_with_carry / sub_with_borrow the carry produced for limb i is the carry consumed
             for limb i+1 (loop-carried dependence), limbs are visited in index order and the returned
             flag is the last carry.
  R-DISCARD  every place where a carry / borrow flag is dropped, or a wrapping_* operation is used, in
             ark-ff's big-integer and prime-field code is in a frozen table of justified sites;
             anything else is reported.  (find_wnaf's dropped carry is a recorded known finding.)
  R-SHIFT    the four multi-bit shifts (muln / divn / <<= / >>=) saturate for n >= 64*N before any
             limb arithmetic and only shift by 64 - n when 0 < n < 64.
  R-ENDIAN   big-endian bit/byte conversions are defined through the little-endian ones by reversal.
  R-RECODE   find_relaxed_naf indexes len-2 / len-3: guardedness of the indices.
"""
import copy
from arklib import dataflow as DF, symex as SX, pathsim as PS
from arklib.facts import op_local, op_place, place_parts
from arklib.poly import Q, Poly

ARITH = "ark_ff::biginteger::arithmetic::"
W = 1 << 64


class WordEngine(SX.Engine):
    """symex with exact integers: u128 intermediates are polynomials; truncations introduce (lo, hi) symbols"""

    def __init__(self, *a, **kw):
        super().__init__(*a, **kw)
        self.decomp = []      # list of (x: Q, lo var, hi var)

    def split(self, x, base=None):
        """x = lo + base * hi with 0 <= lo < base (base = 2^64 by default; 2^63 isolates the top bit of a word)"""
        base = base or W
        for (y, lo, hi) in self.decomp:
            if y.equals(x) and self.base_of(lo) == base:
                return lo, hi
        i = len(self.decomp)
        if base == W:
            lo, hi = Q.var("lo#%d" % i), Q.var("hi#%d" % i)
        else:
            lo, hi = Q.var("low63#%d" % i), Q.var("top#%d" % i)
            self.bases = getattr(self, "bases", {})
            self.bases["low63#%d" % i] = base
        self.decomp.append((x, lo, hi))
        return lo, hi

    def base_of(self, lo):
        return getattr(self, "bases", {}).get(next(iter(lo.n.vars())), W)

    def rvalue(self, fr, r, st):
        k = r["k"]
        if k == "cast":
            v = self.operand(fr, r["o"])
            src = None
            p = op_place(r["o"])
            if p is not None and not place_parts(p)[1]:
                src = fr.fn.local_ty(place_parts(p)[0])
            elif "k" in r["o"]:
                src = r["o"]["k"].get("ty")
            dst = r["ty"]
            bits = {"u8": 8, "u16": 16, "u32": 32, "u64": 64, "u128": 128, "usize": 64, "i64": 64, "i128": 128, "bool": 1}
            if isinstance(v, SX.Ref) or (isinstance(v, SX.Obj) and v.adt in ("array", "tuple")):
                return v          # pointer coercions (unsizing &[T; N] -> &[T]) keep the value
            if isinstance(v, SX.Cond):
                # bool -> integer
                if v.kind == "eq" and isinstance(v.a, Q) and isinstance(v.b, Q) and v.b.is_zero() and any(v.a.equals(hi) for (_, _, hi) in self.decomp):
                    return (Q.const(1) - v.a) if not v.neg else v.a      # hi in {0, 1}
                return SX.TOP
            if isinstance(v, bool):
                return Q.const(int(v))
            if isinstance(v, int):
                v = Q.const(v)
            q = SX.q_of(v)
            if q is None:
                return SX.TOP
            if src in bits and dst in bits and bits[dst] < bits[src] and bits[src] == 128:
                if bits[dst] != 64 and not any(q.equals(hi) for (_, _, hi) in self.decomp):
                    return SX.TOP
                if any(q.equals(hi) for (_, _, hi) in self.decomp):
                    return q          # (tmp >> 64) as u8 / u64: the high part fits
                lo, hi = self.split(q)
                return lo
            return q
        if k == "bin":
            a, b = self.operand(fr, r["a"]), self.operand(fr, r["b"])
            op = r["op"]
            qa, qb = SX.q_of(a) if not isinstance(a, bool) else None, SX.q_of(b) if not isinstance(b, bool) else None
            if qa is not None and qb is not None and not (isinstance(a, int) and isinstance(b, int)):
                base = op.replace("WithOverflow", "").replace("Unchecked", "")
                val = None
                if base == "Add":
                    val = qa + qb
                elif base == "Sub":
                    val = qa - qb
                elif base == "Mul":
                    val = qa * qb
                elif base == "Shr" and qb.is_poly() and qb.n.is_const() and qb.n.const_value() == 64:
                    lo, hi = self.split(qa)
                    val = hi
                elif base == "Shr" and qb.is_poly() and qb.n.is_const() and qb.n.const_value() == 63 and self._is_u64(fr, r["a"]):
                    # top bit of a word
                    lo, hi = self.split(qa, 1 << 63)
                    val = hi
                    self.bits = getattr(self, "bits", [])
                    self.bits.append(hi)
                elif base == "Shl" and qb.is_poly() and qb.n.is_const() and qb.n.const_value() == 1 and self._is_u64(fr, r["a"]) and not (qa.is_poly() and qa.n.is_const()):
                    # wrapping shift of a word by one: twice its low 63 bits
                    lo, hi = self.split(qa, 1 << 63)
                    val = lo * Q.const(2)
                    self.evens = getattr(self, "evens", [])
                    self.evens.append(val)
                elif base == "BitOr" and any(qa.equals(e) for e in getattr(self, "evens", [])) and any(qb.equals(b_) for b_ in getattr(self, "bits", [])):
                    val = qa + qb            # an even word OR a single bit
                elif base == "BitOr" and any(qb.equals(e) for e in getattr(self, "evens", [])) and any(qa.equals(b_) for b_ in getattr(self, "bits", [])):
                    val = qa + qb
                elif base == "Shl" and qa.is_poly() and qa.n.is_const() and qb.is_poly() and qb.n.is_const():
                    val = Q.const(qa.n.const_value() << qb.n.const_value())
                elif base in ("Eq", "Ne"):
                    c = SX.Cond("eq", qa, qb)
                    return c if base == "Eq" else c.negate()
                if val is not None:
                    if "WithOverflow" in op:
                        return SX.Obj(adt="tuple", fields={0: val, 1: False})
                    return val
        return super().rvalue(fr, r, st)

    def _is_u64(self, fr, o):
        p = op_place(o)
        if p is not None:
            l, projs = place_parts(p)
            ty = fr.fn.local_ty(l)
            if not projs:
                return ty == "u64"
            if projs == ["*"]:
                return ty in ("&u64", "&mut u64")
            return (ty.startswith("[u64;") and len(projs) == 1) or ("MulBuffer" in ty and len(projs) == 2)      # element of a limb array
        return "k" in o and o["k"].get("ty") == "u64"

    def reduce(self, q):
        """eliminate lo symbols: lo_i = x_i - base * hi_i (base 2^64, or 2^63 for top-bit splits)"""
        for (x, lo, hi) in reversed(self.decomp):
            name = next(iter(lo.n.vars()))
            if name in q.vars():
                q = q.subst(name, (x - Q.const(self.base_of(lo)) * hi).n)
        return q


def word_models():
    m = SX.Models()
    m.on(SX.by("core::convert::From", "from"), lambda ex, st, fr, t, a: (ex.rvalue(fr, {"k": "cast", "o": t["args"][0], "ty": "u64"}, st) if a and isinstance(a[0], (SX.Cond, bool)) else NotImplemented))
    return m


SPECS = {
    # name: (argument kinds, spec(args, ret, out_a, out_carry) -> (lhs, rhs))
    "adc": ("&mut a, b, carry", lambda v: (v["a"] + v["b"] + v["c"], v["a'"] + Q.const(W) * v["ret"])),
    "adc_for_add_with_carry": ("&mut a, b, carry", lambda v: (v["a"] + v["b"] + v["c"], v["a'"] + Q.const(W) * v["ret"])),
    "sbb": ("&mut a, b, borrow", lambda v: (v["a"] - v["b"] - v["c"], v["a'"] - Q.const(W) * v["ret"])),
    "sbb_for_sub_with_borrow": ("&mut a, b, borrow", lambda v: (v["a"] - v["b"] - v["c"], v["a'"] - Q.const(W) * v["ret"])),
    "mac": ("a, b, c, &mut carry", lambda v: (v["a"] + v["b"] * v["c"], v["ret"] + Q.const(W) * v["carry'"])),
    "mac_with_carry": ("a, b, c, &mut carry", lambda v: (v["a"] + v["b"] * v["c"] + v["carry"], v["ret"] + Q.const(W) * v["carry'"])),
}


def check_limb(res, facts):
    rule = res.rule("R-LIMB", "limb primitives satisfy their word-level carry specification (identity modulo the 2^64 decomposition of u128 intermediates)", 6)
    for name, (sig, spec) in SPECS.items():
        fns = [f for f in facts.fns(unit="ws", crate="ark_ff") if f.id == ARITH + name]
        key = "ark_ff|arithmetic::%s" % name
        if not fns:
            rule.bad(key, "anchor missing")
            continue
        fn = fns[0]
        ex = WordEngine(facts, "ws", word_models(), max_paths=10, max_depth=3, inline_limit=40)
        if name in ("mac", "mac_with_carry"):
            cell = SX.Cell(Q.var("carry"))
            args = [Q.var("a"), Q.var("b"), Q.var("c"), SX.Ref(cell)]
        else:
            cell = SX.Cell(Q.var("a"))
            args = [SX.Ref(cell), Q.var("b"), Q.var("c")]
        try:
            paths = ex.run(fn, args)
        except Exception as e:
            rule.undecided(key, "evaluation failed: %s" % e, fn.loc)
            continue
        paths = [p for p in paths if "panic" not in p.flags]
        if len(paths) != 1 or paths[0].flags & {"cut", "diverge", "top-branch"} or any(f.startswith("unmodelled") for f in paths[0].flags):
            rule.bad(key, "the primitive is no longer a straight-line word computation the rule can evaluate (%s): carry behaviour cannot be established" % (sorted(paths[0].flags) if paths else "no path"), fn.loc)
            continue
        p = paths[0]
        ret = SX.q_of(p.ret)
        out = SX.q_of(cell.v if not isinstance(cell.v, SX.Ref) else None)
        if ret is None or out is None:
            rule.bad(key, "result is not a word value (uses operations outside exact word arithmetic, e.g. wrapping_* / overflowing_*): the carry out of the full sum cannot be derived", fn.loc)
            continue
        v = {"a": Q.var("a"), "b": Q.var("b"), "c": Q.var("c"), "carry": Q.var("carry"), "ret": ret, "a'": out, "carry'": out}
        lhs, rhs = spec(v)
        d = ex.reduce(lhs - rhs)
        if d.is_zero():
            rule.ok(key, "identity holds with %d word decomposition(s)" % len(ex.decomp), fn.loc)
        else:
            rule.bad(key, "word-level specification violated: %s  !=  %s (difference %s after eliminating the low words)" % (str(lhs)[:60], str(rhs)[:60], str(d)[:120]), fn.loc)


def check_chain(res, facts):
    rule = res.rule("R-CHAIN", "multi-limb add/sub: the carry of limb i feeds limb i+1 and the last carry is returned", 2)
    for name, prim in (("add_with_carry", "adc_for_add_with_carry"), ("sub_with_borrow", "sbb_for_sub_with_borrow")):
        fns = [f for f in facts.fns(unit="ws", crate="ark_ff") if f.name == name and f.self_head == "ark_ff::biginteger::BigInt" and f.trait_impl and f.kind != "Closure"]
        key = "ark_ff|BigInt::%s" % name
        if not fns:
            rule.bad(key, "anchor missing")
            continue
        fn = fns[0]
        calls = [(bb, t) for bb, t in fn.calls() if t["f"].get("name") == prim]
        if not calls:
            # the chain written as a fold: `limbs.iter_mut().zip(other).fold(0, |carry, (a, b)| prim(a, b, carry))`
            clos = [c for c in facts.fns(unit="ws", crate="ark_ff") if c.kind == "Closure" and c.id.startswith(fn.id + "::{closure")]
            folded = False
            for c in clos:
                pc = [t for _, t in c.calls() if t["f"].get("name") == prim]
                if len(pc) == 1 and op_local(pc[0]["args"][2]) is not None and _root(c, op_local(pc[0]["args"][2])) == 2 and _root(c, 0) == place_parts(pc[0]["d"])[0] or (len(pc) == 1 and place_parts(pc[0]["d"])[0] == 0 and _root(c, op_local(pc[0]["args"][2])) == 2):
                    folds = [t for _, t in fn.calls() if t["f"].get("name") == "fold" and len(t["args"]) == 3]
                    from rules.c07 import E as _E
                    if len(folds) == 1 and _E(fn, folds[0]["args"][1]) == 0 and place_parts(folds[0]["d"])[0] in DF.Dep(fn).slice([0]) and not any(t["f"].get("name") in ("rev", "skip", "take", "step_by") for _, t in fn.calls()):
                        folded = True
            if folded:
                rule.ok(key, "carry threaded as the accumulator of a fold over the limbs from index 0, starting at 0; the fold result is the returned flag", fn.loc)
            else:
                rule.bad(key, "does not use %s" % prim, fn.loc)
            continue
        dep = DF.Dep(fn)
        problems = []
        # each call's carry-in is the previous call's result (or the initial zero)
        order = sorted(calls, key=lambda c: c[0])
        carries = set()
        for i, (bb, t) in enumerate(order):
            cin = t["args"][2]
            dl = place_parts(t["d"])[0]
            if "k" in cin:
                if cin["k"].get("v") != 0 or i != 0 and len(order) > 1 and not _in_loop(fn, bb):
                    problems.append("limb step %d receives a constant carry" % i)
            else:
                cl = _root(fn, op_local(cin))
                if i == 0:
                    # initial carry must be zero or loop-carried (same variable as the destination)
                    pass
                if _in_loop(fn, bb):
                    if cl != _root(fn, dl) and dl not in dep.slice([op_local(cin)]):
                        problems.append("carry-in of the loop body is not the carry produced by the previous iteration")
                else:
                    prev = place_parts(order[i - 1][1]["d"])[0] if i else None
                    if i and prev not in dep.slice([op_local(cin)]):
                        problems.append("limb step %d does not consume the carry of step %d" % (i, i - 1))
            carries.add(dl)
        # returned flag derives from the last carry
        last = place_parts(order[-1][1]["d"])[0]
        if last not in dep.slice([0]):
            problems.append("the returned flag does not derive from the last carry")
        (rule.bad if problems else rule.ok)(key, "; ".join(sorted(set(problems))) if problems else "%d limb step site(s), carry threaded" % len(order), fn.loc)


def _in_loop(fn, bb):
    return any(bb in fn.reachable_from(s) for s in fn.succ()[bb])


def _root(fn, l, depth=6):
    defs = fn.defs()
    for _ in range(depth):
        ds = [d for d in defs.get(l, []) if d[2] == "assign"]
        if len(ds) != 1 or len(defs.get(l, [])) != 1:
            return l
        r = ds[0][3]["r"]
        if r["k"] == "use" and op_local(r["o"]) is not None and not place_parts(op_place(r["o"]))[1]:
            l = op_local(r["o"])
        else:
            return l
    return l


# (function-id suffix, callee, kind) -> reason
JUSTIFIED = {
    ("QuadExtField<P> as ark_ff::fields::Field>::sqrt", "add_with_carry", "unused"): "(p + 1)/2: p is an odd prime below 2^(64N) - 1, so p + 1 cannot carry out",
    ("::mul_without_cond_subtract", "wrapping_mul", "wrap"): "Montgomery factor k = t0 * INV is defined modulo 2^64",
    ("fp::Fp::<P, N>::subtract_modulus", "sub_with_borrow", "unused"): "executed only when the value is >= p: no borrow",
    ("fp::Fp::<P, N>::subtract_modulus_with_carry", "sub_with_borrow", "unused"): "value >= p or a carry is pending: the borrow cancels the pending carry",
    ("MontConfig::inverse", "sub_with_borrow", "unused"): "binary extended Euclid: subtrahend is the smaller operand on that arm",
    ("MontConfig::mul_assign", "wrapping_mul", "wrap"): "Montgomery factor k = r0 * INV modulo 2^64",
    ("MontConfig::square_in_place", "wrapping_mul", "wrap"): "Montgomery factor k = r_i * INV modulo 2^64",
    ("MontConfig::into_bigint", "wrapping_mul", "wrap"): "Montgomery factor modulo 2^64",
    ("MontConfig::sum_of_products::{closure#1}", "wrapping_mul", "wrap"): "Montgomery factor modulo 2^64",
    ("MontConfig::sum_of_products::{closure#2}::{closure#0}", "wrapping_mul", "wrap"): "Montgomery factor modulo 2^64",
    ("MontConfig::sub_assign", "add_with_carry", "unused"): "a + p - b with b > a: the carry of a + p cancels against the borrow-free subtraction that follows",
    ("MontConfig::sub_assign", "sub_with_borrow", "unused"): "minuend made >= subtrahend by the preceding conditional add of p",
    ("MontConfig::neg_in_place", "sub_with_borrow", "unused"): "p - a with 0 < a < p",
    ("montgomery_backend::inv", "wrapping_mul", "wrap"): "Newton iteration for -p^-1 modulo 2^64",
    ("montgomery_backend::inv", "wrapping_neg", "wrap"): "negation modulo 2^64 of the inverse",
}
JUSTIFIED[("arithmetic::find_naf", "fold<sbb>", "unused")] = "subtracts z = 1 from an odd (hence non-zero) value: no borrow"
FLAGGED = {'add_with_carry', 'sub_with_borrow', 'mul2', 'const_add_with_carry', 'const_sub_with_borrow', 'const_mul2', 'const_mul2_with_carry', 'adc', 'sbb', 'adc_for_add_with_carry', 'sbb_for_sub_with_borrow', 'overflowing_add', 'overflowing_sub', 'overflowing_mul', 'carrying_add', 'borrowing_sub'}


def check_discard(res, facts):
    rule = res.rule("R-DISCARD", "dropped carry / borrow flags and wrapping operations in ark-ff big-integer and prime-field code are all in the table of justified sites", 12)
    from collections import Counter
    from arklib.facts import rv_places
    seen = set()
    for fn in facts.fns(unit="ws", crate="ark_ff"):
        if "::tests::" in fn.id or "::test::" in fn.id:
            continue
        if not ("biginteger" in fn.id or "fields::models::fp" in fn.id or "fields::prime" in fn.id or "quadratic_extension" in fn.id or "const_helpers" in fn.id):
            continue
        uses = None
        for bb, t in fn.calls():
            n = t["f"].get("name") or ""
            kind = None
            if n.startswith("wrapping_") and not fn.d.get("mac"):
                kind = "wrap"
            elif n in FLAGGED and not (t.get("mac") and fn.d.get("mac")):
                d = place_parts(t["d"])[0]
                if uses is None:
                    uses = Counter()
                    for bi, si, s in fn.stmts():
                        r = s.get("r")
                        if r:
                            from arklib.facts import rv_places
                            for p in rv_places(r):
                                uses[place_parts(p)[0]] += 1
                    for b2, t2 in fn.calls():
                        for a in t2["args"]:
                            l = op_local(a)
                            if l is not None:
                                uses[l] += 1
                    for b in fn.bbs:
                        if b["t"]["k"] == "switch":
                            l = op_local(b["t"]["o"])
                            if l is not None:
                                uses[l] += 1
                if uses[d] == 0 and d != 0:
                    kind = "unused"
            elif n in ("fold", "try_fold") and len(t["args"]) == 3:
                # a carry chain written as a fold: the closure threads the flag of adc / sbb as the accumulator,
                # the fold's own result is the carry out of the top limb
                inner = [c for c in facts.fns(unit="ws", crate="ark_ff") if c.kind == "Closure" and c.id.startswith(fn.id + "::{closure") and any((t2["f"].get("name") or "") in FLAGGED for _, t2 in c.calls())]
                d = place_parts(t["d"])[0]
                if inner:
                    used = any(d in [place_parts(p)[0] for p in rv_places(s2["r"])] for _, _, s2 in fn.stmts() if s2.get("r")) or \
                        any(op_local(a) == d for _, t2 in fn.calls() for a in t2["args"]) or \
                        any(b2["t"]["k"] == "switch" and op_local(b2["t"]["o"]) == d for b2 in fn.bbs) or d == 0
                    if not used:
                        n = "fold<%s>" % "/".join(sorted({t2["f"]["name"] for c in inner for _, t2 in c.calls() if (t2["f"].get("name") or "") in FLAGGED}))
                        kind = "unused"
            if kind is None:
                continue
            site = (fn.id, n, kind)
            if site in seen:
                continue
            seen.add(site)
            key = "ark_ff|%s|%s|%s" % (fn.id[-90:], n, kind)
            import re as _re
            owner = _re.sub(r"(::\{closure#\d+\})+$", "", fn.id)      # closures are identified by their enclosing function
            why = next((r for (suf, cn, kd), r in JUSTIFIED.items() if (fn.id.endswith(suf) or owner.endswith(suf)) and cn == n and kd == kind), None)
            if why:
                rule.ok(key, why, fn.loc)
            elif kind == "wrap":
                rule.bad(key, "`%s` in multi-limb arithmetic is not in the table of justified wrapping operations: the overflow it discards is a carry into the next limb" % n, "%s (line %s)" % (fn.loc, t.get("ln")))
            else:
                rule.bad(key, "the carry/borrow returned by `%s` is dropped and the site is not in the table of justified discards: values within reach of 2^(64N) lose a carry" % n, "%s (line %s)" % (fn.loc, t.get("ln")))


def check_endian(res, facts):
    rule = res.rule("R-ENDIAN", "big-endian conversions are the little-endian ones after reversal", 2)
    pairs = (("from_bits_be", "from_bits_le"), ("to_bits_be", "to_bits_le"), ("to_bytes_be", "to_bytes_le"))
    for be, le in pairs:
        fns = [f for f in facts.fns(unit="ws", crate="ark_ff") if f.name == be and f.self_head == "ark_ff::biginteger::BigInt" and f.kind != "Closure"]
        key = "ark_ff|BigInt::%s" % be
        if not fns:
            continue
        fn = fns[0]
        names = [t["f"].get("name") for _, t in fn.calls()]
        for c in facts.closures_of(fn):
            names += [t["f"].get("name") for _, t in c.calls()]
        if le in names and ("reverse" in names or "rev" in names):
            rule.ok(key, "%s after reversal" % le, fn.loc)
        elif be == "to_bytes_be" and "to_be_bytes" in names:
            # an independent big-endian loop: decide it directly -- byte p of the output holds integer bits
            # 8*(8N-1-p) .. +7 for every limb content (one abstract run per N)
            from arklib import bvinterp as BI

            def closure_of(t, fn=fn):
                cty = [a for a in (t["f"].get("targs") or []) if a.startswith("{closure@")]
                cands = [c for c in facts.closures_of(fn) if cty and cty[0] in (c.local_ty(1) or "")]
                return cands[0] if len(cands) == 1 else None
            verdict = None
            for n in (1, 2, 3):
                big = BI.Struct({0: BI.Slice([BI.BV.word(k) for k in range(n)])})
                holder = {"self": big}
                try:
                    vals, end = BI.run(fn, {1: BI.Ref(holder, "self")}, params={"N": n}, max_steps=20000, closure_of=closure_of)
                except BI.Stop as e:
                    verdict = ("undecided", "N = %d: %s" % (n, e))
                    break
                out = vals.get(0)
                items = out.items if isinstance(out, BI.Slice) else None
                if items is None or len(items) != 8 * n:
                    verdict = ("violation", "N = %d: %s bytes produced, expected %d" % (n, len(items) if items is not None else "no", 8 * n))
                    break
                for p_, v in enumerate(items):
                    if isinstance(v, int):
                        v = BI.BV([0] * 64, v)
                    lo = 8 * (8 * n - 1 - p_)
                    for j in range(64):
                        want = (1 << (lo + j)) if j < 8 else 0
                        row, c = v.bit(j)
                        if row != want or c:
                            verdict = ("violation", "N = %d: bit %d of output byte %d is %s, expected %s" % (n, j, p_, _srcname(row, c), ("integer bit %d" % (lo + j)) if want else "0"))
                            break
                    if verdict:
                        break
                if verdict:
                    break
            if verdict is None:
                rule.ok(key, "output byte p holds integer bits 8(8N-1-p)..+7 for all limb contents, N in 1..3 [abstract interpretation]", fn.loc)
            elif verdict[0] == "violation":
                rule.bad(key, verdict[1] + ": not the big-endian byte string of the integer", fn.loc)
            else:
                rule.undecided(key, "abstract interpretation stopped (%s)" % verdict[1], fn.loc)
        elif be == "from_bits_be" and ("rev" in names or "reverse" in names or "rchunks" in names):
            # an independent big-endian reader: its bit placement is decided directly, for every length, by R-BITCONV
            rule.ok(key, "independent big-endian loop; its bit placement is decided bit by bit under R-BITCONV", fn.loc)
        elif "rev" in names or "reverse" in names or "to_be_bytes" in names:
            rule.undecided(key, "not defined through %s; an independent big-endian loop is index arithmetic on run-time lengths (calls: %s)" % (le, sorted(set(n for n in names if n))[:8]), fn.loc)
        else:
            rule.bad(key, "big-endian form neither delegates to %s nor reverses anything" % le, fn.loc)


def check_recode(res, facts):
    rule = res.rule("R-RECODE", "find_relaxed_naf: indices len-2 / len-3 are guarded by a length test", 1)
    fns = [f for f in facts.fns(unit="ws", crate="ark_ff") if f.id == ARITH + "find_relaxed_naf"]
    if not fns:
        rule.bad("ark_ff|find_relaxed_naf", "anchor missing")
        return
    fn = fns[0]
    dep = DF.Dep(fn)
    cd = DF.control_deps(fn)
    # subtraction len - 3 must be control dependent on a comparison of len
    subs = []
    for bi, si, s in fn.stmts():
        r = s.get("r")
        if r and r["k"] == "bin" and r["op"].startswith("Sub") and "k" in r["b"] and r["b"]["k"].get("v") in (2, 3):
            subs.append((bi, r["b"]["k"]["v"]))
    guarded = True
    for bi, k in subs:
        ok = False
        for (sw, succ) in cd.get(bi, ()):
            o = fn.bbs[sw]["t"].get("o")
            l = op_local(o) if o else None
            if l is None:
                continue
            for bj, sj, s2 in fn.stmts():
                r2 = s2.get("r")
                if r2 and r2["k"] == "bin" and r2["op"] in ("Ge", "Gt", "Lt", "Le") and place_parts(s2["d"])[0] in dep.slice([l]):
                    ok = True
        if not ok:
            guarded = False
    key = "R-RECODE|ark_ff|find_relaxed_naf|len-3"
    if guarded and subs:
        rule.ok("ark_ff|find_relaxed_naf|len-3", "index arithmetic guarded by a length comparison", fn.loc)
    else:
        rule.bad("ark_ff|find_relaxed_naf|len-3", "`len - 3` / `len - 2` are computed without a preceding length test: inputs whose NAF has fewer than 3 digits (e.g. [1]) underflow / index out of bounds", fn.loc)


# ---- R-SHIFT (proof by abstract interpretation over GF(2)-affine bit vectors) -----------------------------

def check_shifts(res, facts, tier):
    """muln / divn / <<= / >>= / mul2 / div2 of BigInt<N> agree with shifts of the N*64-bit integer (saturating to zero for
    amounts >= 64N), for EVERY limb content: one abstract run per (N, shift amount) in the domain where each result bit is
    an XOR of input bits; all amounts 0 .. 64N+1 and N in a set of limb counts."""
    from arklib import bvinterp as BI
    rule = res.rule("R-SHIFT", "BigInt shifts equal integer shifts for all limb contents, all amounts and several limb counts [GF(2)-affine abstract interpretation of the MIR]", 6)
    BIG = "ark_ff::biginteger::BigInt"
    targets = {}
    for f in facts.fns(unit="ws", crate="ark_ff"):
        if f.kind == "Closure" or f.self_head != BIG:
            continue
        if f.name in ("muln", "divn", "mul2", "div2") and (f.trait_impl or "").endswith("BigInteger"):
            targets[f.name] = f
        if f.name in ("shl_assign", "shr_assign") and ((f.impl or {}).get("trait_args") or ["", ""])[-1] == "u32":
            targets[f.name] = f
    ns = (1, 2, 3, 4, 6) if tier == "thorough" else (1, 2, 4)
    spec = {"muln": "shl", "shl_assign": "shl", "divn": "shr", "shr_assign": "shr", "mul2": "shl1", "div2": "shr1"}
    for name, kind in spec.items():
        f = targets.get(name)
        key = "ark_ff|BigInt::%s" % name
        if f is None:
            rule.bad(key, "anchor missing")
            continue
        cases = 0
        failed = None
        for n in ns:
            amounts = [None] if kind in ("shl1", "shr1") else list(range(0, 64 * n + 2))
            for amt in amounts:
                limbs = BI.Slice([BI.BV.word(k) for k in range(n)])
                big = BI.Struct({0: limbs})
                holder = {"self": big}
                args = {1: BI.Ref(holder, "self")}
                if amt is not None:
                    args[2] = amt

                def model(nm, argv, t, n=n, f=f):
                    if nm == "from" and len(argv) == 1 and isinstance(argv[0], int):
                        return BI.Struct({0: BI.Slice([argv[0]] + [0] * (n - 1))})
                    # one shift delegating to a sibling (muln -> <<=, ...): interpret the sibling's body in place
                    sib = targets.get(nm)
                    if sib is not None and sib is not f and len(argv) == sib.d["argc"] and (t["f"].get("self") or "").startswith(BIG):
                        a2 = {i + 1: v for i, v in enumerate(argv)}
                        vals2, _ = BI.run(sib, a2, params={"N": n}, call_model=model, max_steps=20000)
                        return vals2.get(0, ())
                    return NotImplemented
                try:
                    vals, end = BI.run(f, args, params={"N": n}, call_model=model, max_steps=20000)
                except BI.Stop as e:
                    failed = ("undecided", "N = %d, amount %s: %s" % (n, amt, e))
                    break
                cases += 1
                # the receiver may have been replaced wholesale (*self = Self::from(0))
                cur = holder["self"]
                out = cur.fields[0].items if isinstance(cur, BI.Struct) else None
                if out is None or len(out) != n:
                    failed = ("undecided", "N = %d, amount %s: result not a BigInt" % (n, amt))
                    break
                sh = amt if amt is not None else 1
                left = kind in ("shl", "shl1")
                total = 64 * n
                for i in range(n):
                    v = out[i]
                    if isinstance(v, int):
                        v = BI.BV([0] * 64, v)
                    for j in range(64):
                        pos = 64 * i + j
                        src = pos - sh if left else pos + sh
                        want = (1 << src) if (0 <= src < total and sh < total) else 0
                        row, c = v.bit(j)
                        if row != want or c:
                            failed = ("violation", "N = %d, shift by %s: result bit %d is %s, expected %s" % (n, sh, pos, _srcname(row, c), ("input bit %d" % src) if want else "0"))
                            break
                    if failed:
                        break
                if failed:
                    break
                if kind == "shl1" and not failed:
                    # mul2 returns the bit shifted out: the top bit of the input
                    rv = vals.get(0)
                    if isinstance(rv, bool) or isinstance(rv, int):
                        rv = BI.BV([0] * 64, int(rv))
                    if not (isinstance(rv, BI.BV) and rv.bit(0) == (1 << (total - 1), 0) and all(rv.is_zero_bit(j) for j in range(1, 64))):
                        failed = ("violation", "N = %d: mul2 does not return the bit shifted out (input bit %d)" % (n, total - 1))
                if failed:
                    break
            if failed:
                break
        if failed and failed[0] == "violation":
            rule.bad(key, failed[1] + ": the operation is not the integer shift", f.loc)
        elif failed:
            rule.undecided(key, "abstract interpretation stopped (%s)" % failed[1], f.loc)
        else:
            rule.ok(key, "equals the %s of the %s-bit integer for all limb contents; %d (N, amount) cases, N in %s" % ({"shl": "left shift (saturating at 64N)", "shr": "right shift (saturating at 64N)", "shl1": "left shift by one", "shr1": "right shift by one"}[kind], "64N", cases, list(ns)), f.loc)


def _srcname(row, c):
    xs = ["bit %d" % i for i in range(row.bit_length()) if (row >> i) & 1]
    return (" ^ ".join(xs) if xs else "0") + (" ^ 1" if c else "")


def check_bitconv(res, facts, tier):
    """from_bits_le / from_bits_be build the integer whose bit i is bits[i] (resp. bits[len-1-i]) for every bit string
    of length <= 64N (longer inputs: the surplus is ignored): one abstract run per (N, length) with every input bit
    symbolic"""
    from arklib import bvinterp as BI
    rule = res.rule("R-BITCONV", "from_bits_le / from_bits_be place input bit i at integer bit i (resp. len-1-i) for all bit strings [GF(2)-affine abstract interpretation]", 2)
    BIG = "ark_ff::biginteger::BigInt"
    fns = {f.name: f for f in facts.fns(unit="ws", crate="ark_ff") if f.kind != "Closure" and f.self_head == BIG and f.name in ("from_bits_le", "from_bits_be") and (f.trait_impl or "").endswith("BigInteger")}
    ns = (1, 2, 3) if tier == "thorough" else (1, 2)
    for name in ("from_bits_le", "from_bits_be"):
        f = fns.get(name)
        key = "ark_ff|BigInt::%s" % name
        if f is None:
            rule.bad(key, "anchor missing")
            continue
        failed = None
        cases = 0

        def closure_of_(t):
            cty = [a for a in (t["f"].get("targs") or []) if a.startswith("{closure@")]
            cands = [c for c in facts.fns(unit="ws", crate="ark_ff") if c.kind == "Closure" and cty and cty[0] in (c.local_ty(1) or "")]
            return cands[0] if len(cands) == 1 else None
        for n in ns:
            lens = list(range(0, 64 * n + 3)) if tier == "thorough" else sorted(set(list(range(0, 4)) + [31, 63, 64, 65, 64 * n - 1, 64 * n, 64 * n + 1, 64 * n + 2, 100 if n > 1 else 40]))
            for ln in lens:
                # input bit k is the symbolic boolean with global index k
                bits = BI.Slice([BI.BV([1 << k] + [0] * 63) for k in range(ln)])

                def model(nm, argv, t, n=n):
                    if nm == "zero" and not argv:
                        return BI.Struct({0: BI.Slice([0] * n)})
                    if nm == "from_bits_le" and len(argv) == 1:
                        g = fns.get("from_bits_le")
                        if g is None:
                            return NotImplemented
                        v2, e2 = BI.run(g, {1: argv[0]}, params={"N": n}, call_model=model, max_steps=200000)
                        return v2.get(0)
                    # a private helper of the biginteger module (e.g. a limb packer extracted from the loop): interpreted in place
                    for key_ in (t["f"].get("res"), t["f"].get("path")):
                        callee = facts.get(key_, "ws") if key_ else None
                        if callee is not None and callee.kind != "Closure" and callee.crate == "ark_ff" and "::biginteger::" in callee.id and callee.d["argc"] == len(argv) and callee.id != f.id:
                            v2, e2 = BI.run(callee, {i + 1: x for i, x in enumerate(argv)}, params={"N": n}, call_model=model, max_steps=200000, closure_of=closure_of_)
                            return v2.get(0)
                    return NotImplemented
                try:
                    vals, end = BI.run(f, {1: BI.Ref(bits)}, params={"N": n}, call_model=model, max_steps=200000, closure_of=closure_of_)
                except BI.Stop as e:
                    failed = ("undecided", "N = %d, %d bits: %s" % (n, ln, e))
                    break
                cases += 1
                out = vals.get(0)
                limbs = out.fields[0].items if isinstance(out, BI.Struct) else None
                if limbs is None or len(limbs) != n:
                    failed = ("undecided", "N = %d, %d bits: result is not a BigInt" % (n, ln))
                    break
                for i in range(n):
                    v = limbs[i]
                    if isinstance(v, int):
                        v = BI.BV([0] * 64, v)
                    for j in range(64):
                        pos = 64 * i + j
                        src = pos if name == "from_bits_le" else ln - 1 - pos
                        want = (1 << src) if (0 <= src < ln and pos < ln) else 0
                        row, c = v.bit(j)
                        if row != want or c:
                            failed = ("violation", "N = %d, %d input bits: integer bit %d is %s, expected %s" % (n, ln, pos, _srcname(row, c).replace("bit", "input bit"), ("input bit %d" % src) if want else "0"))
                            break
                    if failed:
                        break
                if failed:
                    break
            if failed:
                break
        if failed and failed[0] == "violation":
            rule.bad(key, failed[1], f.loc)
        elif failed:
            rule.undecided(key, "abstract interpretation stopped (%s)" % failed[1], f.loc)
        else:
            rule.ok(key, "bit i of the result is input bit %s for every bit string; %d (N, length) cases" % ("i" if name.endswith("le") else "len-1-i", cases), f.loc)


def check_mulword(res, facts, tier):
    """BigInt::mul returns (low, high) with low + 2^(64N) high = a*b, and mul_low returns a*b mod 2^(64N), for ALL limb
    contents: the schoolbook loops are unrolled for N = 1, 2, 3 (thorough: 4) by symbolic execution; every
    `mac_with_carry` step introduces a (low word, high word) pair with low + 2^64 high = its exact u128 value (R-LIMB shows
    the primitive computes that value); the sum of the result limbs minus the product of the operands must then reduce
    to zero (mul) / to a multiple of 2^(64N) (mul_low) as a polynomial identity in the limbs and high words."""
    rule = res.rule("R-MULWORD", "BigInt::mul / mul_low equal the integer product (resp. its low half) for all limb contents [word-level polynomial identity, N = 1..3]", 2)
    BIG = "ark_ff::biginteger::BigInt"
    ns = (1, 2, 3, 4) if tier == "thorough" else (1, 2, 3)
    for name in ("mul", "mul_low"):
        fs = [f for f in facts.fns(unit="ws", crate="ark_ff") if f.kind != "Closure" and f.name == name and f.self_head == BIG and (f.trait_impl or "").endswith("BigInteger")]
        key = "ark_ff|BigInt::%s" % name
        if not fs:
            rule.bad(key, "anchor missing")
            continue
        fn = fs[0]
        verdict = None
        for N in ns:
            wm = word_models()

            def _into_iter(ex_, st, fr, t, a):
                return a[0]

            def _next(ex_, st, fr, t, a):
                r = ex_.deref(a[0])
                if isinstance(r, SX.Obj) and set(r.fields) >= {0, 1} and isinstance(r.fields[0], int) and isinstance(r.fields[1], int):
                    s0, e0 = r.fields[0], r.fields[1]
                    if s0 < e0:
                        r.fields[0] = s0 + 1
                        return SX.some(s0)
                    return SX.none()
                return NotImplemented
            wm.on(SX.by(None, "into_iter"), _into_iter)
            wm.on(SX.by(None, "next"), _next)
            wm.on(SX.by(None, "is_zero"), lambda ex_, st, fr, t, a: False)     # general position; the zero shortcut returns zero
            ex = WordEngine(facts, "ws", wm, env={"N": N}, max_paths=20, max_depth=6, inline_limit=400, max_visits=4 * N * N + 8)
            a = SX.Obj(adt="BigInt", fields={0: SX.Obj(adt="array", fields={i: Q.var("a%d" % i) for i in range(N)})})
            b = SX.Obj(adt="BigInt", fields={0: SX.Obj(adt="array", fields={i: Q.var("b%d" % i) for i in range(N)})})
            try:
                paths = [p_ for p_ in ex.run(fn, [SX.Ref(SX.Cell(a)), SX.Ref(SX.Cell(b))]) if "panic" not in p_.flags]
            except Exception as e:
                verdict = ("undecided", "N = %d: evaluation failed: %s" % (N, str(e)[:80]))
                break
            if len(paths) != 1 or paths[0].flags:
                verdict = ("undecided", "N = %d: not a single straight evaluation (%d paths, flags %s)" % (N, len(paths), sorted(paths[0].flags)[:4] if paths else []))
                break

            def limbs(o):
                o = ex.deref(o)
                arr = ex.deref(o.fields[0])
                return [SX.q_of(ex.deref(arr.fields[i])) for i in range(N)]
            ret = ex.deref(paths[0].ret)
            try:
                out = limbs(ret.fields[0]) + limbs(ret.fields[1]) if name == "mul" else limbs(ret)
            except Exception as e:
                verdict = ("undecided", "N = %d: result is not a BigInt of word values (%s)" % (N, str(e)[:60]))
                break
            if any(x is None for x in out):
                verdict = ("undecided", "N = %d: a result limb is not a word expression" % N)
                break
            A_ = sum((Q.var("a%d" % i) * Q.const(W ** i) for i in range(N)), Q.const(0))
            B_ = sum((Q.var("b%d" % i) * Q.const(W ** i) for i in range(N)), Q.const(0))
            R_ = sum((x * Q.const(W ** k) for k, x in enumerate(out)), Q.const(0))
            d = ex.reduce(R_ - A_ * B_)
            if name == "mul":
                good = d.is_zero()
            else:
                good = d.is_poly() and all(c % (W ** N) == 0 for c in d.n.t.values())
            if not good:
                verdict = ("violation", "N = %d: sum of the result limbs minus a*b reduces to %s, not to %s: the result is not the %s for every operand" % (N, str(d)[:120], "0" if name == "mul" else "a multiple of 2^(64N)", "2N-limb product" if name == "mul" else "product modulo 2^(64N)"))
                break
        if verdict is None:
            rule.ok(key, "%s for all limb contents, N in %s (identity modulo %s word decompositions per N)" % ("low + 2^(64N) high = a*b" if name == "mul" else "result = a*b mod 2^(64N)", list(ns), "N^2"), fn.loc)
        elif verdict[0] == "violation":
            rule.bad(key, verdict[1], fn.loc)
        else:
            rule.undecided(key, verdict[1], fn.loc)


def _loop_models(wm):
    """models that let the word engine run the `unroll_for_loops` expansions with a concrete limb count"""
    def _into_iter(ex_, st, fr, t, a):
        return a[0]

    def _next(ex_, st, fr, t, a):
        r = ex_.deref(a[0])
        if isinstance(r, SX.Obj) and set(r.fields) >= {0, 1} and isinstance(r.fields[0], int) and isinstance(r.fields[1], int):
            s0, e0 = r.fields[0], r.fields[1]
            if s0 < e0:
                r.fields[0] = s0 + 1
                return SX.some(s0)
            return SX.none()
        return NotImplemented

    def _checked_sub(ex_, st, fr, t, a):
        x, y = ex_.deref(a[0]), ex_.deref(a[1])
        if isinstance(x, int) and isinstance(y, int) and not isinstance(x, bool):
            return SX.some(x - y) if x >= y else SX.none()
        return NotImplemented

    def _unwrap_or(ex_, st, fr, t, a):
        o = ex_.deref(a[0])
        if isinstance(o, SX.Obj) and o.variant == "Some":
            return o.fields[0]
        if isinstance(o, SX.Obj) and o.variant == "None":
            return ex_.deref(a[1])
        return NotImplemented
    # slice iterators as python lists of element references, so that `xs.iter_mut().zip(ys.iter()).fold(init, f)` runs
    def _items(ex_, v):
        if isinstance(v, SX.Obj) and v.adt == "pyiter":
            return v.fields["items"]
        return None

    def _iter(ex_, st, fr, t, a):
        r = a[0]
        arr = ex_.deref(r)
        if isinstance(r, SX.Ref) and isinstance(arr, SX.Obj) and arr.adt == "array":
            n = len(arr.fields)
            return SX.Obj(adt="pyiter", fields={"items": [SX.Ref(r.cell, tuple(r.projs) + (("ci", i, False),)) for i in range(n)]})
        return NotImplemented

    def _zip(ex_, st, fr, t, a):
        x, y = _items(ex_, a[0]), _items(ex_, a[1])
        if x is None or y is None:
            return NotImplemented
        return SX.Obj(adt="pyiter", fields={"items": [SX.Obj(adt="tuple", fields={0: p, 1: q}) for p, q in zip(x, y)]})

    def _rev(ex_, st, fr, t, a):
        x = _items(ex_, a[0])
        return SX.Obj(adt="pyiter", fields={"items": list(reversed(x))}) if x is not None else NotImplemented

    def _fold(ex_, st, fr, t, a):
        x = _items(ex_, a[0])
        if x is None or len(a) != 3:
            return NotImplemented
        acc = a[1]
        for item in x:
            acc = ex_.call_closure(st, a[2], [acc, item])
        return acc

    def _into_iter2(ex_, st, fr, t, a):
        return a[0]
    wm.on(SX.by(None, "iter"), _iter)
    wm.on(SX.by(None, "iter_mut"), _iter)
    wm.on(SX.by(None, "zip"), _zip)
    wm.on(SX.by(None, "rev"), _rev)
    wm.on(SX.by(None, "fold"), _fold)
    wm.on(SX.by(None, "into_iter"), _into_iter)
    wm.on(SX.by(None, "next"), _next)
    wm.on(SX.by(None, "checked_sub"), _checked_sub)
    wm.on(SX.by(None, "unwrap_or"), _unwrap_or)
    return wm


def check_addword(res, facts, tier):
    """BigInt::add_with_carry / sub_with_borrow: out + carry * 2^(64N) = a + b resp. out - borrow * 2^(64N) = a - b, with the
    returned flag being exactly that carry / borrow, for all limb contents (N = 1..4): word-level identity."""
    rule = res.rule("R-ADDWORD", "BigInt::add_with_carry / sub_with_borrow equal integer addition / subtraction with the returned flag as the lost carry / borrow [word-level identity, N = 1..4]", 2)
    BIG = "ark_ff::biginteger::BigInt"
    ns = (1, 2, 3, 4, 6) if tier == "thorough" else (1, 2, 3, 4)
    for name, sign in (("add_with_carry", 1), ("sub_with_borrow", -1)):
        fs = [f for f in facts.fns(unit="ws", crate="ark_ff") if f.kind != "Closure" and f.name == name and f.self_head == BIG and (f.trait_impl or "").endswith("BigInteger")]
        key = "ark_ff|BigInt::%s" % name
        if not fs:
            rule.bad(key, "anchor missing")
            continue
        fn = fs[0]
        verdict = None
        for N in ns:
            ex = WordEngine(facts, "ws", _loop_models(word_models()), env={"N": N}, max_paths=20, max_depth=6, inline_limit=400, max_visits=4 * N + 12)

            def big(pfx):
                return SX.Obj(adt="BigInt", fields={0: SX.Obj(adt="array", fields={i: Q.var("%s%d" % (pfx, i)) for i in range(N)})})
            ca = SX.Cell(big("a"))
            try:
                paths = [p_ for p_ in ex.run(fn, [SX.Ref(ca), SX.Ref(SX.Cell(big("b")))]) if "panic" not in p_.flags]
            except Exception as e:
                verdict = ("undecided", "N = %d: evaluation failed: %s" % (N, str(e)[:80]))
                break
            if len(paths) != 1 or paths[0].flags:
                verdict = ("undecided", "N = %d: not a single straight evaluation (%d paths, flags %s)" % (N, len(paths), sorted(paths[0].flags)[:4] if paths else []))
                break
            try:
                arr = ex.deref(ex.deref(ca.v).fields[0])
                out = [SX.q_of(ex.deref(arr.fields[i])) for i in range(N)]
            except Exception as e:
                verdict = ("undecided", "N = %d: result limbs not found (%s)" % (N, str(e)[:60]))
                break
            r = paths[0].ret
            flag = None
            if isinstance(r, SX.Cond) and r.kind == "eq" and isinstance(r.a, Q) and isinstance(r.b, Q) and r.b.is_zero():
                flag = r.a if r.neg else (Q.const(1) - r.a)       # `hi != 0` resp. `hi == 0` with hi in {0, 1}
            elif isinstance(r, bool):
                flag = Q.const(int(r))
            if flag is None or any(x is None for x in out):
                verdict = ("undecided", "N = %d: the returned flag / limbs are not word expressions (%s)" % (N, str(r)[:60]))
                break
            A_ = sum((Q.var("a%d" % i) * Q.const(W ** i) for i in range(N)), Q.const(0))
            B_ = sum((Q.var("b%d" % i) * Q.const(W ** i) for i in range(N)), Q.const(0))
            R_ = sum((x * Q.const(W ** k) for k, x in enumerate(out)), Q.const(0))
            d = ex.reduce(R_ + Q.const(sign) * flag * Q.const(W ** N) - (A_ + Q.const(sign) * B_))
            if not d.is_zero():
                verdict = ("violation", "N = %d: out %s flag*2^(64N) - (a %s b) reduces to %s, not 0: limbs or the returned %s are wrong for some operands" % (N, "+" if sign > 0 else "-", "+" if sign > 0 else "-", str(d)[:120], "carry" if sign > 0 else "borrow"))
                break
        if verdict is None:
            rule.ok(key, "out %s flag * 2^(64N) = a %s b for all limb contents, N in %s" % ("+" if sign > 0 else "-", "+" if sign > 0 else "-", list(ns)), fn.loc)
        elif verdict[0] == "violation":
            rule.bad(key, verdict[1], fn.loc)
        else:
            rule.undecided(key, verdict[1], fn.loc)


def check_mulhigh(res, facts):
    """mul_high has no algorithm of its own: it is the high half of `mul` on every path.  A shortcut (e.g. `return zero`
    when the bit lengths add up to at most 64N + 1) makes it disagree with mul().1 on the boundary."""
    from rules.c07 import E, show, A, C
    rule = res.rule("R-MULHIGH", "BigInt::mul_high is mul(self, other).1 on every path", 1)
    fs = [f for f in facts.fns(unit="ws", crate="ark_ff") if f.kind != "Closure" and f.name == "mul_high" and f.self_head == "ark_ff::biginteger::BigInt"]
    key = "ark_ff|BigInt::mul_high"
    if not fs:
        rule.bad(key, "anchor missing")
        return
    f = fs[0]
    switches = [b for b in f.bbs if b["t"]["k"] == "switch"]
    ret = E(f, {"c": 0})
    want = ("call", "mul", (A(1), A(2)), ("1",))
    if ret == want and not switches:
        rule.ok(key, "mul(self, other).1", f.loc)
    else:
        rule.bad(key, "mul_high returns %s with %d branch(es): it is not mul(self, other).1 on every path, so a shortcut can return a different high half than the full product has (e.g. zero when the bit lengths sum to 64N + 1 and the product reaches 2^(64N))" % (show(ret)[:80], len(switches)), f.loc)


def check_digitrange(res, facts):
    """signed_mod_reduction(n, 2^w) must not overflow for any window find_wnaf admits: interval analysis of its body
    for n in [0, 2^64) and modulus = 2^w, w over the range tested by find_wnaf's guard"""
    from arklib import intervals as IV
    from rules.c07 import E, show
    rule = res.rule("R-DIGITRANGE", "signed_mod_reduction: no arithmetic overflow and |digit| <= 2^(w-1) for every window width find_wnaf admits (interval analysis)", 62)
    smr = [f for f in facts.fns(unit="ws", crate="ark_ff") if f.name == "signed_mod_reduction" and f.kind != "Closure"]
    wn = [f for f in facts.fns(unit="ws", crate="ark_ff") if f.id == "ark_ff::biginteger::BigInteger::find_wnaf"]
    if not smr or not wn:
        rule.bad("ark_ff|signed_mod_reduction", "anchor missing (signed_mod_reduction / find_wnaf)")
        return
    smr, wn = smr[0], wn[0]
    # the admitted window range: `(lo..hi).contains(&w)` or comparisons of w against constants
    lo = hi = None
    for bb, t in wn.calls():
        if t["f"].get("name") == "contains":
            r = E(wn, t["args"][0])
            if isinstance(r, tuple) and r[0] == "agg" and r[1] == "Range" and all(isinstance(x, int) for x in r[2][:2]):
                lo, hi = r[2][0], r[2][1]
            else:
                # the range literal is a promoted constant: its two integer literals, in source order
                kc = DF.direct_const(wn, t["args"][0]) or {}
                lits = [d for d in (kc.get("pdefs") or []) if d.startswith("lit:")]
                others = [d for d in (kc.get("pdefs") or []) if not d.startswith("lit:")]
                if len(lits) == 2 and not others:
                    lo, hi = int(lits[0][4:]), int(lits[1][4:])
    if lo is None:
        cs = [E(wn, b["t"]["o"]) for b in wn.bbs if b["t"]["k"] == "switch"]
        los = [c[3] for c in cs if isinstance(c, tuple) and c[0] == "bin" and c[1] in ("Ge", "Lt") and c[2] == ("arg", 2, ()) and isinstance(c[3], int)]
        if len(los) == 2:
            lo, hi = min(los), max(los)
    call = [t for _, t in wn.calls() if t["f"].get("name") == "signed_mod_reduction"]
    if lo is None or not call:
        rule.bad("ark_ff|find_wnaf|window range", "cannot read the admitted window range / the call of signed_mod_reduction off find_wnaf", wn.loc)
        return
    marg = E(wn, call[0]["args"][1])
    if marg != ("bin", "Shl", 1, ("arg", 2, ())):
        rule.bad("ark_ff|find_wnaf|modulus", "modulus passed to signed_mod_reduction is %s, expected 1 << w" % show(marg), wn.loc)
        return
    for w in range(lo, hi):
        key = "ark_ff|signed_mod_reduction|w=%d" % w
        try:
            panics, ret = IV.analyse(smr, {1: (0, (1 << 64) - 1), 2: (1 << w, 1 << w)})
        except IV.Unsupported as e:
            rule.undecided(key, str(e), smr.loc)
            continue
        panics = [p for p in panics if p[0] not in ("RemainderByZero", "DivisionByZero") or p[2] == "always"]
        if panics:
            rule.bad(key, "for window w = %d (modulus 2^%d, admitted by find_wnaf's guard %d..%d) the body can panic in a debug build: %s" % (w, w, lo, hi, ", ".join("%s at line %s (%s)" % p for p in panics)), smr.loc)
        elif ret is None or ret[0] < -(1 << (w - 1)) - (1 << (w - 1)) or ret[1] > (1 << w) - 1:
            rule.bad(key, "digit range %s exceeds the window" % (ret,), smr.loc)
        else:
            rule.ok(key, "no overflow; result within [%d, %d]" % ret, smr.loc)


def check_ziprem(res, facts):
    """`left.by_ref().zip(right)`: Zip asks `left` for an item first and only then finds `right` exhausted, so one item of
    `left` is consumed and dropped.  Code that afterwards asks `left` whether anything remains (the overflow test of a
    limb-by-limb conversion: `if digits.next().is_some() { Err(()) }`) misses a value that is exactly one item too long --
    BigInt::<1>::try_from(2^64) == Ok(0).  Expected number of matches in the repository: zero; the witness crate keeps a
    positive example and its harmless twin (short side first)."""
    from rules.c07 import _ref_local
    rule = res.rule("R-ZIPREM", "no iterator is advanced as the LEFT side of by_ref().zip(..) and inspected for left-over items afterwards (Zip drops one item of the left side when the right side ends first)", 2)
    LEFTOVER = ("next", "len", "count", "is_empty", "peek", "last", "nth", "size_hint", "next_back", "collect", "sum", "fold", "for_each", "any", "all")
    witness = {}
    n_sites = 0
    for unit in ("ws", "shapes"):
        for fn in facts.fns(unit=unit):
            if fn.crate not in ("ark_ff", "ark_ec", "ark_poly", "ark_serialize", "verif_shapes") or "::tests::" in fn.id:
                continue
            brs = [(bb, t) for bb, t in fn.calls() if t["f"].get("name") == "by_ref" and len(t["args"]) == 1]
            if not brs:
                continue
            dep = DF.Dep(fn)
            hit = None
            for bb, t in brs:
                src = _ref_local(fn, t["args"][0])
                dst = op_local({"m": t["d"]}) if not isinstance(t.get("d"), dict) else None
                if src is None:
                    continue
                n_sites += 1
                for zb, zt in fn.calls():
                    if zt["f"].get("name") != "zip" or len(zt["args"]) != 2:
                        continue
                    l0 = op_local(zt["args"][0])
                    if l0 is None or not any(c is t for _, c in dep.calls_in_slice([l0])):
                        continue
                    # left side of the zip is this by_ref(): is `src` looked at after the zip?
                    reach = fn.reachable_from(zb)
                    for b2, t2 in fn.calls():
                        if b2 in reach and b2 != zb and t2 is not t and t2["f"].get("name") in LEFTOVER and t2["args"] and _ref_local(fn, t2["args"][0]) == src:
                            hit = (t2["f"].get("name"), t2.get("ln"))
            if unit == "shapes":
                if fn.name in ("zip_by_ref_leftover", "zip_by_ref_leftover_ok"):
                    witness[fn.name] = hit is not None
                continue
            key = "%s|%s" % (fn.crate, fn.id[-100:])
            if hit:
                rule.bad(key, "an iterator advanced as the left side of by_ref().zip(..) is asked for left-over items afterwards (%s): Zip has already consumed and dropped one of them when the right side ended first, so an input exactly one item too long passes the test" % hit[0], fn.loc)
            else:
                rule.ok(key, "by_ref() site(s) without a left-over test behind a left-sided zip", fn.loc)
    if witness.get("zip_by_ref_leftover") is True and witness.get("zip_by_ref_leftover_ok") is False:
        rule.ok("witness|zip_by_ref_leftover", "positive example matched, short-side-first twin accepted")
        rule.ok("witness|scan", "%d by_ref() call site(s) in the workspace crates scanned" % n_sites)
    else:
        rule.bad("witness|zip_by_ref_leftover", "the positive example in /verif/witness/shapes was not matched (or its twin was): rule has gone blind (%s)" % witness)


def run(ctx, res):
    from arklib import symex as SX_
    facts = ctx.facts(["ws", "shapes"])
    res.analysed = facts.stats()
    check_limb(res, facts)
    check_chain(res, facts)
    check_discard(res, facts)
    check_endian(res, facts)
    check_recode(res, facts)
    check_digitrange(res, facts)
    check_mulhigh(res, facts)
    check_mulword(res, facts, ctx.tier)
    check_addword(res, facts, ctx.tier)
    check_ziprem(res, facts)
    from rules import iter_override as IO
    arr = lambda *l: SX_.Ref(SX_.Cell(SX_.Obj(adt="array", fields=dict(enumerate(l)))))
    IO.check(res, facts, facts, [
        ("ark_ff|BitIteratorLE", "ws", "ark_ff", "bits::BitIteratorLE", [SX_.Obj(adt="ark_ff::bits::BitIteratorLE", fields={0: arr(0b1011001101), 1: 0, 2: 10})], range(0, 13), (0, 3, 9, 10), 13),
        ("ark_ff|BitIteratorBE", "ws", "ark_ff", "bits::BitIteratorBE", [SX_.Obj(adt="ark_ff::bits::BitIteratorBE", fields={0: arr(0b1011001101), 1: 10})], range(0, 13), (0, 3, 9, 10), 13),
    ], "ark-ff bit iterators (BitIteratorLE / BitIteratorBE)")
    IO.check_width(res, facts)
    check_shifts(res, facts, ctx.tier)
    check_bitconv(res, facts, ctx.tier)
    return {
        "level": "other",
        "explanation": "Word-level proof obligations for the six limb primitives (polynomial identity modulo the decomposition of each u128 intermediate into low and high 64-bit words), loop-carried carry threading of multi-limb add/sub, a frozen table of every dropped carry/borrow flag and wrapping operation in ark-ff's big-integer and prime-field code, delegation of big-endian conversions, and guardedness of the recoding's index arithmetic. Agreement with arbitrary-precision arithmetic for all operands (shifts, multiplication, parsing/printing) and that the signed-digit recodings reconstruct the value are NOT decided.",
        "assumptions": ["carry / borrow inputs of the limb primitives are 0 or 1", "rustc MIR faithfully represents integer casts"],
    }
