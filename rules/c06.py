"""C06 — pairings: structural clauses.

  R-IDFILTER   every multi_miller_loop (config default of each model + hand-written ones in curves/)
               removes pairs with an identity component before any line evaluation, with an
               element-wise filter (filter / filter_map), not a prefix-truncating adaptor.
  R-CHUNK      per-chunk accumulators of `chunks(4).map(..).product()` do not fold a captured
               target-field value (result independent of the number of chunks) — rules/chunk.py.
  R-LOOPBITS   producer (G2Prepared::from) and consumer (Miller loop) walk the same bits of the loop
               parameter: where one side uses BitIteratorBE::new and the other without_leading_zeros,
               every shipped configuration's constant must have its top bit set (const table).
  R-FINALEXP   final_exponentiation returns None only through f.inverse() being None (map / and_then
               of the inverse), for every model.
  R-SCALAR     PairingOutput scalar multiplication hands the full limb slice of the scalar to the
               exponentiation kernel (no sub-slicing of scalar limbs).
"""
from arklib import dataflow as DF
from arklib.facts import closure_args, op_local, op_place, place_parts
from rules import chunk

UNITS = ["ws", "par", "curves"]
ELEMENTWISE = {"filter_map", "filter", "flat_map"}
PREFIX = {"map_while", "take_while", "skip_while", "scan", "take", "skip", "step_by"}


def is_delegate(fn):
    """body that only forwards to another multi_miller_loop"""
    calls = [t for _, t in fn.calls()]
    return len(fn.bbs) <= 4 and any(t["f"].get("name") == fn.name for t in calls)


def check_idfilter(res, facts):
    rule = res.rule("R-IDFILTER", "identity pairs are dropped individually (filter/filter_map on is_zero) before the Miller loop, in every pairing model", 6)
    seen = set()
    for fn in facts.fns():
        if fn.unit not in ("ws", "curves") or fn.name != "multi_miller_loop" or fn.kind == "Closure":
            continue
        if is_delegate(fn) or (fn.crate, fn.id) in seen:
            continue
        seen.add((fn.crate, fn.id))
        key = "%s|%s" % (fn.crate, fn.id[-120:])
        found = []
        for bb, t in fn.calls():
            n = t["f"].get("name")
            if n not in ELEMENTWISE | PREFIX | {"map"}:
                continue
            for cid in closure_args(fn, t):
                clo = facts.get(cid, fn.unit)
                if clo is None:
                    continue
                zero_tests = [c for _, c in clo.calls() if c["f"].get("name") == "is_zero"]
                if zero_tests:
                    found.append((n, len(zero_tests), clo))
        filt = [f for f in found if f[0] in ELEMENTWISE]
        pref = [f for f in found if f[0] in PREFIX]
        if pref:
            rule.bad(key, "identity pairs are handled with the prefix-truncating adaptor `%s`: every pair after the first identity pair is dropped from the product" % pref[0][0], fn.loc)
        elif not filt:
            rule.bad(key, "no identity-pair filter: pairs whose G1 or G2 component is the identity reach the line evaluations (coordinates of the point at infinity are used), so e(O, Q) / e(P, O) need not be 1", fn.loc)
        else:
            n, k, clo = filt[0]
            if k >= 2:
                rule.ok(key, "%s on is_zero of both components" % n, fn.loc)
            else:
                rule.bad(key, "identity filter tests only one of the two components", fn.loc)


def check_loopbits(res, facts):
    rule = res.rule("R-LOOPBITS", "G2 preparation and Miller loop iterate the same bit string of the loop parameter", 2)
    # (model module, const name) -> {constructor names}
    use = {}
    sites = {}
    for fn in facts.fns(unit="ws", crate="ark_ec"):
        if "::models::" not in fn.id:
            continue
        root = fn.id if fn.kind != "Closure" else fn.d.get("parent", "")
        model = root.split("::models::")[1].split("::")[0] if "::models::" in root else None
        if model is None:
            continue
        for bb, t in fn.calls():
            f = t["f"]
            if f.get("self_head") == "ark_ff::bits::BitIteratorBE" and f.get("name") in ("new", "without_leading_zeros"):
                k = DF.direct_const(fn, t["args"][0]) if t["args"] else None
                cname = None
                if k is not None:
                    if "def" in k and "promoted" not in k:
                        cname = k["def"].rsplit("::", 1)[-1]
                    elif k.get("pdefs"):
                        cname = k["pdefs"][0].rsplit("::", 1)[-1]
                if cname:
                    use.setdefault((model, cname), set()).add(f["name"])
                    sites.setdefault((model, cname), []).append(fn.loc)
    for (model, cname), ctors in sorted(use.items()):
        key = "ark_ec|%s|%s" % (model, cname)
        if len(ctors) == 1:
            rule.ok(key, "all sites use BitIteratorBE::%s" % next(iter(ctors)))
            continue
        # mixed policy: every shipped value of that constant must start with a set bit in its top limb
        vals = []
        for c in facts.crates:
            if c.unit not in ("ws", "curves"):
                continue
            for k in c.consts:
                if k["name"] == cname and ("::models::%s::" % model) in (k.get("trait") or ""):
                    vals.append((c.name, k))
        if not vals:
            rule.undecided(key, "mixed leading-zero policy and no configuration constant found")
            continue
        for crate, k in vals:
            v = k["val"]
            limbs = v if isinstance(v, list) else None
            kk = "%s|%s" % (key, k.get("owner"))
            if not limbs:
                rule.undecided(kk, "constant not decoded")
            elif (limbs[-1] >> 63) & 1:
                rule.ok(kk, "mixed policy (new vs without_leading_zeros) is harmless: top bit of %s is set" % cname, "%s:%s" % (k["file"], k["line"]))
            else:
                rule.bad(kk, "G2 preparation iterates all 64*n bits of %s but the Miller loop skips leading zeros: coefficient stream and loop disagree for this configuration (top bit clear)" % cname, "%s:%s" % (k["file"], k["line"]))


def check_finalexp(res, facts):
    rule = res.rule("R-FINALEXP", "final_exponentiation returns None exactly when the Miller-loop value has no inverse", 4)
    seen = set()
    for fn in facts.fns():
        if fn.unit not in ("ws", "curves") or fn.name != "final_exponentiation" or fn.kind == "Closure":
            continue
        if len(fn.bbs) <= 4 and any(t["f"].get("name") == "final_exponentiation" for _, t in fn.calls()):
            continue
        if (fn.crate, fn.id) in seen:
            continue
        seen.add((fn.crate, fn.id))
        key = "%s|%s" % (fn.crate, fn.id[-120:])
        names = [t["f"].get("name") for _, t in fn.calls()]
        helper_names = names[:]
        # look one level into local helpers
        for _, t in fn.calls():
            callee = facts.get(t["f"].get("res") or t["f"].get("path"), fn.unit)
            if callee is not None and callee.crate == fn.crate:
                helper_names += [c["f"].get("name") for _, c in callee.calls()]
        if "inverse" not in helper_names and "cyclotomic_inverse" not in helper_names:
            rule.bad(key, "no inverse() of the Miller-loop value: the easy part f^(p^k-1) cannot be formed", fn.loc)
            continue
        nones = [1 for bi, si, s in fn.stmts() if s.get("r", {}).get("k") == "agg" and s["r"].get("variant") == "None"]
        unwraps = [t for _, t in fn.calls() if t["f"].get("name") in ("unwrap", "expect") and t["f"].get("self_head") == "core::option::Option"]
        if unwraps and "inverse" in names:
            dep = DF.Dep(fn)
            bad = [u for u in unwraps if any(c["f"].get("name") == "inverse" for _, c in dep.calls_in_slice([op_local(u["args"][0])]) if op_local(u["args"][0]) is not None)]
            if bad:
                rule.bad(key, "inverse() of the Miller-loop value is unwrapped: a zero input panics instead of returning None", fn.loc)
                continue
        rule.ok(key, "None arises only from inverse() (map/and_then)", fn.loc)


def check_scalar(res, facts):
    rule = res.rule("R-SCALAR", "scalar multiplication of pairing outputs passes the whole scalar limb slice to cyclotomic exponentiation", 1)
    for fn in facts.fns(unit="ws", crate="ark_ec"):
        if fn.name != "mul_bigint" or fn.self_head != "ark_ec::pairing::PairingOutput":
            continue
        key = "ark_ec|PairingOutput::mul_bigint"
        slicing = [t["f"].get("name") for _, t in fn.calls() if t["f"].get("name") in ("index", "get", "split_at", "position", "rposition", "take", "skip", "trim_end_matches", "iter")]
        exps = [t for _, t in fn.calls() if t["f"].get("name") in ("cyclotomic_exp", "pow", "cyclotomic_exp_in_place")]
        if not exps:
            rule.bad(key, "no exponentiation kernel call", fn.loc)
        elif slicing:
            rule.bad(key, "the scalar's limb slice is cut (%s) before exponentiation: limbs above a zero limb / below the cut are ignored" % ",".join(sorted(set(slicing))), fn.loc)
        else:
            rule.ok(key, "as_ref() of the scalar reaches cyclotomic_exp unmodified", fn.loc)


def check_scalar_mlo(res, facts):
    """A Miller-loop value is a general element of the target field; the cyclotomic kernels (compressed squaring, conjugate as
    inverse) are only valid after the easy part of the final exponentiation.  Who-may-call: no method whose receiver type is
    MillerLoopOutput calls a cyclotomic_* kernel; its scalar multiplication uses the generic pow."""
    rule = res.rule("R-SCALAR.mlo", "operations on MillerLoopOutput never use the cyclotomic-subgroup kernels (their value is not in the cyclotomic subgroup before the final exponentiation)", 1)
    n = 0
    for fn in facts.fns(unit="ws", crate="ark_ec"):
        if fn.self_head != "ark_ec::pairing::MillerLoopOutput" or "::tests::" in fn.id:
            continue
        n += 1
        cyc = sorted({t["f"].get("name") for _, t in fn.calls() if (t["f"].get("name") or "").startswith("cyclotomic_")})
        if cyc:
            rule.bad("ark_ec|MillerLoopOutput::%s" % fn.name, "calls %s on a Miller-loop value: the cyclotomic shortcuts are wrong outside the cyclotomic subgroup, so (f * s) followed by final_exponentiation is not e(P,Q)^s" % "/".join(cyc), fn.loc)
        elif fn.name == "mul":
            has_pow = any(t["f"].get("name") in ("pow", "pow_with_table") for _, t in fn.calls())
            (rule.ok if has_pow else rule.bad)("ark_ec|MillerLoopOutput::mul", "generic pow" if has_pow else "no generic exponentiation (pow) call", fn.loc)
    if n == 0:
        rule.bad("ark_ec|MillerLoopOutput", "anchor missing: no method with receiver MillerLoopOutput found")


def check_prepared(res, facts):
    """every conversion into G1Prepared / G2Prepared from a projective point or from a reference goes through the one
    affine constructor: `q.into_affine().into()` / `(*q).into()`.  (A twin that normalises by hand can disagree with
    the by-value form: Projective is Jacobian, the G2 line-function helper type is homogeneous.)"""
    rule = res.rule("R-PREPARED", "From<Projective> / From<&_> for G1Prepared / G2Prepared delegate to into_affine() and the affine constructor", 20)
    NT = DF.TRANSPARENT - {"into"}
    r2 = res.rule("R-PREPARED.input", "From<Affine> for G1Prepared / G2Prepared never substitutes Default::default() / generator() for (an arm of) its input", 8)
    for f in facts.fns(unit="ws", crate="ark_ec"):
        if f.kind == "Closure" or f.name != "from":
            continue
        slf = (f.impl or {}).get("self") or ""
        if "Prepared<" not in slf or "::models::" not in slf:
            continue
        ta = (f.impl or {}).get("trait_args") or []
        src = ta[-1] if ta else ""
        by_value_affine = ("affine::Affine<" in src) and not src.startswith("&")
        model = slf.split("::models::", 1)[1].split("::", 1)[0]
        key = "ark_ec|%s::%s<-%s%s" % (model, slf.rsplit("::", 1)[-1].split("<")[0], "&" if src.startswith("&") else "", "Projective" if "group::Projective<" in src else "Affine")
        if by_value_affine:
            # the one real constructor: its result is built from the argument on every path.  `Default` of every prepared
            # type is the prepared GENERATOR, so `Self::default()` / `generator()` on an input arm (say, for the point at
            # infinity) makes e(O, Q) = e(G, Q) != 1
            k2 = "ark_ec|%s::%s<-Affine|no-default" % (model, slf.rsplit("::", 1)[-1].split("<")[0])
            hosts = [f] + [c for c in facts.fns(unit="ws", crate="ark_ec") if c.kind == "Closure" and c.id.startswith(f.id + "::{closure")]
            alien = sorted({t["f"].get("name") for h in hosts for _, t in h.calls() if t["f"].get("name") in ("default", "generator")})
            if alien:
                r2.bad(k2, "the affine constructor calls %s: the prepared default is the prepared generator, so the input arm that takes it (the point at infinity) is paired as if it were the generator -- e(O, Q) != 1" % alien, f.loc)
            else:
                r2.ok(k2, "result built from the argument only", f.loc)
            continue
        ret = DF.expr(f, {"c": 0}, depth=20, transparent=NT)
        ok = False
        if isinstance(ret, tuple) and ret[0] == "call" and ret[1] in ("into", "from") and len(ret[2]) == 1:
            a = ret[2][0]
            if a == ("arg", 1, ()):
                ok = True
            elif isinstance(a, tuple) and a[0] == "call" and a[1] == "into_affine" and a[2] == (("arg", 1, ()),):
                ok = True
        if not ok and "affine::Affine<" in src and isinstance(ret, tuple) and ret[0] == "agg" and ret[2] == (("arg", 1, ()),):
            ok = True       # newtype wrapper around a copy of the affine point
        (rule.ok if ok else rule.bad)(key, "delegates to the affine constructor" if ok else "conversion is computed as %s instead of delegating to into_affine() and the affine constructor: twins of one conversion can disagree (Projective is Jacobian: x/z^2, y/z^3)" % DF.show(ret)[:200], f.loc)


def check_signfix(res, facts):
    """Optimal-ate Miller loops run over |x| (resp. |loop count|); for a negative parameter the accumulated value has to be
    inverted (conjugated: it lies in the cyclotomic subgroup after the easy part, and the final exponentiation kills the
    difference) before it is returned.  Must-pass-through: every path of multi_miller_loop from entry to the normal return
    passes the test of the sign constant, and the inversion is control dependent on its true arm -- in the serial and in
    the parallel build (an early return for large batches that skips it computes e(P,Q)^-1 for those batches only)."""
    rule = res.rule("R-SIGNFIX", "every return path of multi_miller_loop passes the sign test of the loop parameter, whose true arm inverts the accumulator (serial and parallel builds)", 8)
    FLAGS = {"bls12::Bls12Config": ("X_IS_NEGATIVE",), "bn::BnConfig": ("X_IS_NEGATIVE",),
             "bw6::BW6Config": ("ATE_LOOP_COUNT_1_IS_NEGATIVE", "ATE_LOOP_COUNT_2_IS_NEGATIVE")}
    INV = ("cyclotomic_inverse_in_place", "cyclotomic_inverse", "conjugate_in_place", "inverse_in_place", "inverse")

    def gates(fn, flag, depth=1):
        """(blocks every one of which tests the flag or calls a helper that always does, blocks of fn itself with the switch)"""
        own = []
        for i, b in enumerate(fn.bbs):
            if b["t"]["k"] == "switch":
                k = DF.direct_const(fn, b["t"]["o"])
                if k and (k.get("def") or "").endswith("::" + flag):
                    own.append(i)
        via = []
        if depth:
            for bb, t, callee in DF.local_callees(facts, fn):
                g, o = gates(callee, flag, depth - 1)
                if g and not callee.can_reach_exit_avoiding(0, set(g)) and fixes(callee, o, flag):
                    via.append(bb)
        return own + via, own

    def fixes(fn, own, flag):
        """the inversion is control dependent on the true arm of (one of) the flag switches"""
        if not own:
            return True      # delegated entirely to helpers, each checked on its own
        cd = DF.control_deps(fn)
        for bb, t in fn.calls():
            if t["f"].get("name") not in INV:
                continue
            todo, seen = [bb], set()
            while todo:
                x = todo.pop()
                for (sw, succ) in cd.get(x, ()):
                    if (sw, succ) in seen:
                        continue
                    seen.add((sw, succ))
                    todo.append(sw)
                    if sw in own and succ == fn.bbs[sw]["t"]["else"]:
                        return True
        return False
    for unit in ("ws", "par"):
        for fn in facts.fns(unit=unit, crate="ark_ec"):
            if fn.name != "multi_miller_loop" or fn.kind == "Closure" or not fn.default_of:
                continue
            model = next((m for m in FLAGS if fn.default_of.endswith(m)), None)
            if model is None:
                continue
            for flag in FLAGS[model]:
                key = "ark_ec|%s|%s|%s" % (unit, model.split("::")[-1], flag)
                g, own = gates(fn, flag)
                if not g:
                    rule.bad(key, "multi_miller_loop never tests %s: for a negative loop parameter the Miller value is the inverse of the pairing's" % flag, fn.loc)
                elif fn.can_reach_exit_avoiding(0, set(g)):
                    rule.bad(key, "a path of multi_miller_loop returns without passing the %s test: on that path (an early return / a batch-size or feature-dependent arm) the accumulator is not inverted for a negative loop parameter, so those inputs yield e(P,Q)^-1" % flag, fn.loc)
                elif not fixes(fn, own, flag):
                    rule.bad(key, "no inversion of the accumulator on the true arm of the %s test" % flag, fn.loc)
                else:
                    rule.ok(key, "every return path passes the %s test; inversion on its true arm" % flag, fn.loc)


def run(ctx, res):
    facts = ctx.facts(UNITS)
    res.analysed = facts.stats()
    check_idfilter(res, facts)
    rc = res.rule("R-CHUNK", "per-chunk Miller-loop accumulators are independent of captured target-field values (chunk-count independence)", 6)
    chunk.check_chunks(rc, facts, ["ws", "par", "curves"], path_filter=lambda fn: fn.name == "multi_miller_loop" or "multi_miller_loop" in fn.id)
    check_loopbits(res, facts)
    check_finalexp(res, facts)
    check_scalar(res, facts)
    check_scalar_mlo(res, facts)
    check_prepared(res, facts)
    check_signfix(res, facts)
    from rules import c06_finalexp
    from arklib.configs import Registry
    c06_finalexp.check_exponent(res, facts, Registry(facts, ("ws", "curves")))
    return {
        "level": "other",
        "explanation": "Sibling-agreement and dataflow rules over the MIR of the five pairing models in ark-ec (serial and parallel feature configurations) and the hand-written CP6-782 pairing: identity-pair filtering, chunk-count independence of the chunked Miller loops, agreement of the bit strings walked by G2 preparation and the loop (discharged per shipped configuration from the constant table), None-propagation in the final exponentiation. Bilinearity, non-degeneracy and the hard-part addition chains are theorems about the whole computation and are NOT decided.",
        "assumptions": ["line functions read affine coordinates unconditionally (so identity pairs must be filtered)", "target-field multiplication is associative/commutative (C02)"],
    }
