use ark_poly::{SparseMultilinearExtension, DenseMultilinearExtension, MultilinearExtension};
use ark_test_curves::bls12_381::Fr;
fn main() {
    let evals = vec![(1usize, Fr::from(5u64)), (2usize, Fr::from(7u64)), (6usize, Fr::from(9u64))];
    let s = SparseMultilinearExtension::<Fr>::from_evaluations(3, &evals);
    let d = s.to_dense_multilinear_extension();
    println!("sparse.to_evaluations = {:?}", s.to_evaluations().iter().map(|x| x.to_string()).collect::<Vec<_>>());
    println!("dense.to_evaluations  = {:?}", d.to_evaluations().iter().map(|x| x.to_string()).collect::<Vec<_>>());
    // relabel touching the top variable
    let d4 = DenseMultilinearExtension::<Fr>::from_evaluations_vec(4, (0..16u64).map(Fr::from).collect());
    let r = d4.relabel(0, 2, 2);
    println!("dense relabel(0,2,2) ok: {:?}", r.to_evaluations().iter().take(4).map(|x| x.to_string()).collect::<Vec<_>>());
    let ev: Vec<(usize, Fr)> = (1..16usize).map(|i| (i, Fr::from(i as u64))).collect();
    let s4 = SparseMultilinearExtension::<Fr>::from_evaluations(4, &ev);
    let r = std::panic::catch_unwind(|| s4.relabel(0, 2, 2));
    println!("sparse relabel(0,2,2) panicked: {}", r.is_err());
    if let Ok(sr) = r {
        let dd = DenseMultilinearExtension::<Fr>::from_evaluations_vec(4, (0..16u64).map(Fr::from).collect()).relabel(0, 2, 2);
        println!("sparse relabel == dense relabel: {}", sr.to_dense_multilinear_extension() == dd);
    }
}
