"""Intra-procedural dataflow over arkfacts MIR: flow-insensitive dependence graph with pointer
(&mut) tracking, backward slices, constant evaluation of configuration branches, reachability
under configuration assumptions, control dependence."""
from collections import defaultdict
from .facts import place_parts, op_place, op_local, rv_operands, rv_places, term_succs


class Dep:
    """Dependence graph of one function.

    node = local index.  deps[l] = set of locals whose value may flow into l.
    events[l] = list of producing events:  ('call', bb, term) | ('const', constdict) | ('arg',) |
                ('rv', bb, idx, rvalue)
    pointee[x] = set of locals y such that x may hold &mut/& of (part of) y.
    """

    def __init__(self, fn):
        self.fn = fn
        self.deps = defaultdict(set)
        self.events = defaultdict(list)
        self.pointee = defaultdict(set)
        argc = fn.d["argc"]
        for a in range(1, argc + 1):
            self.events[a].append(("arg", a))
        self._build()

    def _targets(self, place):
        """locals written when `place` is assigned"""
        l, projs = place_parts(place)
        if projs and projs[0] == "*":
            # write through pointer l: the pointees (and l itself stands for '*l' when l is an argument)
            t = set(self.pointee.get(l, ()))
            t.add(l)
            return t
        return {l}

    def _build(self):
        fn = self.fn
        # pass 1: pointer relations (iterate to fixpoint; chains are short)
        for _ in range(4):
            changed = False
            for _, _, s in fn.stmts():
                if "d" not in s:
                    continue
                dl, dprojs = place_parts(s["d"])
                r = s["r"]
                if r["k"] in ("ref", "raw"):
                    pl, pprojs = place_parts(r["p"])
                    if pprojs and pprojs[0] == "*":
                        new = set(self.pointee.get(pl, ())) | {pl}
                    else:
                        new = {pl}
                    if not dprojs and not new <= self.pointee[dl]:
                        self.pointee[dl] |= new
                        changed = True
                elif r["k"] == "use" or r["k"] == "cast":
                    sl = op_local(r["o"])
                    if sl is not None and not dprojs and self.pointee.get(sl) and not self.pointee[sl] <= self.pointee[dl]:
                        self.pointee[dl] |= self.pointee[sl]
                        changed = True
            if not changed:
                break
        # pass 2: dependences
        for bi, b in enumerate(fn.bbs):
            for si, s in enumerate(b["s"]):
                if "d" not in s:
                    continue
                r = s["r"]
                srcs = set()
                for p in rv_places(r):
                    l, projs = place_parts(p)
                    srcs.add(l)
                    for pr in projs:
                        if isinstance(pr, list) and pr[0] == "i":
                            srcs.add(pr[1])
                    if projs and projs[0] == "*":
                        srcs |= self.pointee.get(l, set())
                dl, dprojs = place_parts(s["d"])
                for pr in dprojs:
                    if isinstance(pr, list) and pr[0] == "i":
                        srcs.add(pr[1])
                for t in self._targets(s["d"]):
                    self.deps[t] |= srcs
                    self.events[t].append(("rv", bi, si, r))
                for o in rv_operands(r):
                    if "k" in o:
                        for t in self._targets(s["d"]):
                            self.events[t].append(("const", o["k"]))
            t = b["t"]
            if t["k"] == "call":
                srcs = set()
                ptr_args = []
                for a in t["args"]:
                    l = op_local(a)
                    if l is None:
                        continue
                    srcs.add(l)
                    srcs |= self.pointee.get(l, set())
                    if self.pointee.get(l) or self.fn.local_ty(l).startswith("&mut"):
                        ptr_args.append(l)
                tg = set(self._targets(t["d"]))
                # callee may write through &mut arguments
                for l in ptr_args:
                    if self.fn.local_ty(l).startswith("&mut"):
                        tg |= self.pointee.get(l, set()) | {l}
                for x in tg:
                    self.deps[x] |= srcs
                    self.events[x].append(("call", bi, t))
                    for a in t["args"]:
                        if "k" in a:
                            self.events[x].append(("const", a["k"]))

    def slice(self, locals_, stop=None):
        """transitive closure of deps from the given locals -> set of locals.
        stop(local) -> True: the local is included but its own dependences are not followed."""
        seen = set()
        st = list(locals_)
        while st:
            x = st.pop()
            if x in seen:
                continue
            seen.add(x)
            if stop is not None and stop(x):
                continue
            st.extend(self.deps.get(x, ()))
            # reading a pointer reads its pointees
            st.extend(self.pointee.get(x, ()))
        return seen

    def slice_events(self, locals_):
        sl = self.slice(locals_)
        out = []
        for l in sl:
            out.extend(self.events.get(l, ()))
        return sl, out

    def calls_in_slice(self, locals_):
        _, ev = self.slice_events(locals_)
        seen = set()
        out = []
        for e in ev:
            if e[0] == "call" and e[1] not in seen:
                seen.add(e[1])
                out.append((e[1], e[2]))
        return out

    def consts_in_slice(self, locals_):
        _, ev = self.slice_events(locals_)
        return [e[1] for e in ev if e[0] == "const"]

    def args_in_slice(self, locals_):
        sl = self.slice(locals_)
        return {l for l in sl if 1 <= l <= self.fn.d["argc"]}


# ---- configuration-constant evaluation ----------------------------------------------------------

def const_key(k):
    """name of a configuration constant operand, or None"""
    if k is None:
        return None
    if "def" in k and "promoted" not in k:
        return k["def"].rsplit("::", 1)[-1]
    if "param" in k:
        return k["param"]
    return None


class CfgEval:
    """Evaluate locals that are functions of configuration constants / const params only, under an
    assumption `env` (name -> value).  Unknown -> None."""

    def __init__(self, fn, env):
        self.fn = fn
        self.env = env
        self.single = {}
        for l, ds in fn.defs().items():
            if isinstance(l, int) and len(ds) == 1:
                self.single[l] = ds[0]
        self.memo = {}

    def operand(self, o):
        if "k" in o:
            k = o["k"]
            if "v" in k:
                return k["v"]
            key = const_key(k)
            if key is not None and key in self.env:
                return self.env[key]
            return None
        p = op_place(o)
        l, projs = place_parts(p)
        if projs:
            return None
        return self.local(l)

    def local(self, l):
        if l in self.memo:
            return self.memo[l]
        self.memo[l] = None
        d = self.single.get(l)
        v = None
        if d and d[2] == "assign":
            r = d[3]["r"]
            k = r["k"]
            if k == "use":
                v = self.operand(r["o"])
            elif k == "un" and r["op"] == "Not":
                x = self.operand(r["o"])
                if isinstance(x, bool):
                    v = not x
            elif k == "bin":
                a, b = self.operand(r["a"]), self.operand(r["b"])
                if a is not None and b is not None and not isinstance(a, (dict, list)) and not isinstance(b, (dict, list)):
                    op = r["op"]
                    try:
                        v = {"Eq": lambda: a == b, "Ne": lambda: a != b, "Lt": lambda: a < b, "Le": lambda: a <= b,
                             "Gt": lambda: a > b, "Ge": lambda: a >= b, "BitAnd": lambda: a & b, "BitOr": lambda: a | b,
                             "Add": lambda: a + b, "Sub": lambda: a - b, "Mul": lambda: a * b}.get(op, lambda: None)()
                    except Exception:
                        v = None
            elif k == "cast":
                v = self.operand(r["o"])
        self.memo[l] = v
        return v


def reach_under(fn, env, start=0):
    """basic blocks reachable from `start` when branches on configuration constants are resolved by env"""
    ev = CfgEval(fn, env)
    seen = set()
    st = [start]
    decided = []
    while st:
        b = st.pop()
        if b in seen:
            continue
        seen.add(b)
        t = fn.bbs[b]["t"]
        if t["k"] == "switch":
            v = ev.operand(t["o"])
            if v is not None and not isinstance(v, (dict, list)):
                iv = int(v)
                tgt = t["else"]
                for val, tg in zip(t["vals"], t["tgts"]):
                    if val == iv:
                        tgt = tg
                decided.append((b, iv))
                st.append(tgt)
                continue
        if t["k"] == "assert":
            # overflow / bounds assertions: follow the success edge only
            st.append(t["t"])
            continue
        for s in term_succs(t):
            st.append(s)
    return seen, decided


def cfg_consts_branched_on(fn):
    """names of configuration constants (assoc consts / const params) that reach a SwitchInt"""
    names = set()
    dep = None
    for b in fn.bbs:
        t = b["t"]
        if t["k"] != "switch":
            continue
        o = t["o"]
        if "k" in o:
            n = const_key(o["k"])
            if n:
                names.add(n)
            continue
        if dep is None:
            dep = Dep(fn)
        l = op_local(o)
        for k in dep.consts_in_slice([l]):
            n = const_key(k)
            if n:
                names.add(n)
    return names


def control_deps(fn):
    """bb -> set of (branch_bb, succ) pairs it is control dependent on (Ferrante et al. via post-dominators)"""
    pd = fn.pdom()
    n = len(fn.bbs)
    out = defaultdict(set)
    succ = fn.succ()
    for a in range(n):
        if len(succ[a]) < 2:
            continue
        for s in succ[a]:
            # walk from s up the post-dominator tree until ipdom(a)
            stop = pd[a]
            x = s
            guard = 0
            while x is not None and x != stop and x != n and guard < n + 2:
                out[x].add((a, s))
                x = pd[x]
                guard += 1
    return out


def direct_const(fn, operand, depth=8):
    """Follow an operand through single-definition copies / borrows / casts to the constant it names
    (no flow through fields or calls).  Returns the constant dict or None."""
    defs = fn.defs()
    o = operand
    for _ in range(depth):
        if "k" in o:
            return o["k"]
        p = op_place(o)
        l, projs = place_parts(p)
        if projs and projs != ["*"]:
            return None
        ds = [d for d in defs.get(l, []) if d[2] == "assign"]
        if len(ds) != 1 or len(defs.get(l, [])) != 1:
            return None
        r = ds[0][3]["r"]
        if r["k"] in ("use", "cast"):
            o = r["o"]
        elif r["k"] == "ref":
            pl, pp = place_parts(r["p"])
            if pp and pp != ["*"]:
                return None
            o = {"c": pl}
        else:
            return None
    return None
