"""C02, part 2: tower wrappers, non-residue hooks (defaults and every override) and sparse
multiplications, evaluated symbolically on pre-expanded tower elements."""
from arklib import symex as SX
from arklib.poly import Q, Poly
from rules.kernels import Kernel, run_kernel, V, arg, short, decided, apply_subst
from rules import c02 as G

QUAD, CUBIC = G.QUAD, G.CUBIC
FPMOD = "ark_ff::fields::models::"

# symbols for the configured constants
B2 = V("beta2")            # Fp2Config::NONRESIDUE  (in Fp)
B3 = V("beta3")            # Fp3Config::NONRESIDUE  (in Fp)
XI = V("xi")               # Fp6Config(3over2)::NONRESIDUE as an opaque Fp2 element
XI0, XI1 = V("xi.c0"), V("xi.c1")


def leaf(n):
    return SX.Obj(name=n)


def quad(n, mk=leaf):
    return SX.Obj(adt=QUAD, fields={0: mk(n + ".c0"), 1: mk(n + ".c1")})


def cubic(n, mk=leaf):
    return SX.Obj(adt=CUBIC, fields={0: mk(n + ".c0"), 1: mk(n + ".c1"), 2: mk(n + ".c2")})


def ref(o):
    return SX.Ref(SX.Cell(o))


def flat(ex, v):
    """flatten a (nested) aggregate of ring values into a list of Q (None when a leaf is not a ring value)"""
    v = ex.deref(v)
    if isinstance(v, SX.Obj) and v.fields and not (v.name is not None and not v.fields):
        out = []
        for k in sorted(v.fields, key=lambda x: (str(type(x)), x)):
            out += flat(ex, v.fields[k])
        return out
    return [SX.q_of(v)]


def sym2(n):
    return [V(n + ".c0"), V(n + ".c1")]


def sym3(n):
    return [V(n + ".c0"), V(n + ".c1"), V(n + ".c2")]


# ---- reference tower arithmetic on nested lists of Q -------------------------------------------

def f2_mul(a, b, beta=B2):
    return [a[0] * b[0] + beta * a[1] * b[1], a[0] * b[1] + a[1] * b[0]]


def f3_mul(a, b, beta=B3):
    return [a[0] * b[0] + beta * (a[1] * b[2] + a[2] * b[1]), a[0] * b[1] + a[1] * b[0] + beta * a[2] * b[2], a[0] * b[2] + a[1] * b[1] + a[2] * b[0]]


def vadd(a, b):
    return [x + y for x, y in zip(a, b)]


def f6_3o2_mul(a, b, xi=XI):
    """Fp6 = Fp2[v]/(v^3 - xi) with Fp2 elements as opaque ring symbols"""
    return [a[0] * b[0] + xi * (a[1] * b[2] + a[2] * b[1]), a[0] * b[1] + a[1] * b[0] + xi * a[2] * b[2], a[0] * b[2] + a[1] * b[1] + a[2] * b[0]]


def f6_by_v(a, xi=XI):
    """multiply an Fp6 element by v"""
    return [xi * a[2], a[0], a[1]]


def f12_mul(a, b, xi=XI):
    """Fp12 = Fp6[w]/(w^2 - v); a, b = [[3 x Fp2], [3 x Fp2]]"""
    a0b0 = f6_3o2_mul(a[0], b[0], xi)
    a1b1 = f6_3o2_mul(a[1], b[1], xi)
    c0 = vadd(a0b0, f6_by_v(a1b1, xi))
    c1 = vadd(f6_3o2_mul(a[0], b[1], xi), f6_3o2_mul(a[1], b[0], xi))
    return [c0, c1]


def f6_2o3_mul(a, b, beta=B3):
    """Fp6 = Fp3[Y]/(Y^2 - u), Fp3 = Fp[u]/(u^3 - beta); a, b = [[3 x Fp], [3 x Fp]]"""
    by_u = lambda t: [beta * t[2], t[0], t[1]]
    c0 = vadd(f3_mul(a[0], b[0], beta), by_u(f3_mul(a[1], b[1], beta)))
    c1 = vadd(f3_mul(a[0], b[1], beta), f3_mul(a[1], b[0], beta))
    return [c0, c1]


Z = Q.const(0)


def const_values(defpath, k, ctx=()):
    """symbolic stand-ins for configuration constants inside ark-ff's generic tower code"""
    args = " ".join(k.get("args") or [])
    if defpath.endswith("ExtConfig::NONRESIDUE") and "ConfigWrapper" not in args:
        # generic template body: the instantiation is given by the call chain that led here
        args = next((c for c in ctx if "ConfigWrapper" in c), args)
    if defpath.endswith("fp2::Fp2Config::NONRESIDUE"):
        return B2
    if defpath.endswith("fp3::Fp3Config::NONRESIDUE"):
        return B3
    if defpath.endswith("fp6_3over2::Fp6Config::NONRESIDUE"):
        return XI
    if defpath.endswith("QuadExtConfig::NONRESIDUE"):
        first = min([(args.find(w), w) for w in ("Fp2ConfigWrapper", "Fp4ConfigWrapper", "Fp6ConfigWrapper", "Fp12ConfigWrapper") if w in args] or [(0, "")])[1]
        if first == "Fp2ConfigWrapper":
            return B2
    if defpath.endswith("CubicExtConfig::NONRESIDUE"):
        if "Fp3ConfigWrapper" in args:
            return B3
        if "fp6_3over2::Fp6ConfigWrapper" in args:
            return XI
    return None


def const_values_xi_struct(defpath, k, ctx=()):
    """as above but the sextic non-residue is a structured Fp2 element (xi.c0, xi.c1)"""
    if defpath.endswith("fp6_3over2::Fp6Config::NONRESIDUE") or (defpath.endswith("CubicExtConfig::NONRESIDUE") and "fp6_3over2::Fp6ConfigWrapper" in " ".join(k.get("args") or [])):
        return quad("xi")
    return const_values(defpath, k, ctx)


DEG = {"Fp2ConfigWrapper": 2, "Fp3ConfigWrapper": 3, "Fp4ConfigWrapper": 4, "fp6_3over2::Fp6ConfigWrapper": 6, "fp6_2over3::Fp6ConfigWrapper": 6, "Fp12ConfigWrapper": 12}


def tower_models():
    def extra(m):
        def extdeg(ex, st, fr, t, a):
            cands = [t["f"].get("self") or ""] + [f2.ctx_self or "" for f2 in reversed(st.frames)]
            for s in cands:
                if s.startswith(FPMOD + "fp::Fp<"):
                    return 1
                best = None
                for k, v in DEG.items():
                    i = s.find(k + "<")
                    if i >= 0 and (best is None or i < best[0]):
                        best = (i, v)
                if best:
                    return best[1]
            return NotImplemented
        m.on(SX.by("ark_ff::fields::Field", "extension_degree"), extdeg)
    return SX.ring_models(extra)


def find_inherent(facts, unit, crate, name, id_has):
    return [f for f in facts.fns(unit=unit, crate=crate) if f.name == name and f.kind != "Closure" and id_has in f.id and not f.trait_impl]


def find_default(facts, unit, crate, name, trait):
    return [f for f in facts.fns(unit=unit, crate=crate) if f.name == name and f.default_of == trait]


def self_flat(ex, p):
    return flat(ex, p.args.cell(1).v) if p.args is not None else None


def check(res, facts):
    rule = res.rule("R-POLY.towers", "non-residue hooks and sparse multiplications of the towers equal multiplication by the stated (sparse) element (polynomial identity, all inputs)", 17)
    U, C = "ws", "ark_ff"
    M = tower_models()

    def one(key, fns, args, expect, cv=const_values, results=self_flat, **kw):
        if not fns:
            rule.bad(key, "kernel not found (anchor missing)")
            return
        flatten = lambda e: [q for part in e for q in (part if isinstance(part, list) else [part])]
        def fl(e):
            out = []
            for x in e:
                out += fl(x) if isinstance(x, list) else [x]
            return out
        run_kernel(rule, facts, U, Kernel(key, fns[0], args, results, lambda ex, p: fl(expect)), M, const_value=cv, max_depth=9, inline_limit=600, **kw)

    y2 = sym2("y")
    # Fp4: multiply an Fp2 element by u
    one("Fp4Config::mul_fp2_by_nonresidue_in_place(default)", find_default(facts, U, C, "mul_fp2_by_nonresidue_in_place", FPMOD + "fp4::Fp4Config"),
        [ref(quad("y"))], [B2 * y2[1], y2[0]])
    # Fp6 (3 over 2): multiply an Fp2 element by xi = (xi0, xi1)
    one("fp6_3over2::Fp6Config::mul_fp2_by_nonresidue_in_place(default)", find_default(facts, U, C, "mul_fp2_by_nonresidue_in_place", FPMOD + "fp6_3over2::Fp6Config"),
        [ref(quad("y"))], f2_mul(y2, [XI0, XI1]), cv=const_values_xi_struct)
    one("fp6_3over2::Fp6Config::mul_fp2_by_nonresidue(default)", find_default(facts, U, C, "mul_fp2_by_nonresidue", FPMOD + "fp6_3over2::Fp6Config"),
        [quad("y")], f2_mul(y2, [XI0, XI1]), cv=const_values_xi_struct, results=lambda ex, p: flat(ex, p.ret))
    # Fp6 (2 over 3): multiply an Fp3 element by u
    y3 = sym3("y")
    one("fp6_2over3::Fp6Config::mul_fp3_by_nonresidue_in_place(default)", find_default(facts, U, C, "mul_fp3_by_nonresidue_in_place", FPMOD + "fp6_2over3::Fp6Config"),
        [ref(cubic("y"))], [B3 * y3[2], y3[0], y3[1]])
    # Fp12: multiply an Fp6 element by v
    one("Fp12Config::mul_fp6_by_nonresidue_in_place(default)", find_default(facts, U, C, "mul_fp6_by_nonresidue_in_place", FPMOD + "fp12_2over3over2::Fp12Config"),
        [ref(cubic("y"))], f6_by_v(y3))
    # ---- scalings
    x2 = sym2("x")
    one("Fp2::mul_assign_by_fp", find_inherent(facts, U, C, "mul_assign_by_fp", "Fp2ConfigWrapper"), [ref(quad("x")), ref(leaf("e"))], [x2[0] * V("e"), x2[1] * V("e")])
    x3 = sym3("x")
    one("Fp3::mul_assign_by_fp", find_inherent(facts, U, C, "mul_assign_by_fp", "Fp3ConfigWrapper"), [ref(cubic("x")), ref(leaf("e"))], [a * V("e") for a in x3])
    # Fp6 3over2 sparse (Fp2 elements opaque)
    s6 = sym3("x")
    c0, c1 = V("c0"), V("c1")
    one("fp6_3over2::Fp6::mul_by_1", find_inherent(facts, U, C, "mul_by_1", "fp6_3over2"), [ref(cubic("x")), ref(leaf("c1"))], f6_3o2_mul(s6, [Z, c1, Z]))
    one("fp6_3over2::Fp6::mul_by_01", find_inherent(facts, U, C, "mul_by_01", "fp6_3over2"), [ref(cubic("x")), ref(leaf("c0")), ref(leaf("c1"))], f6_3o2_mul(s6, [c0, c1, Z]))
    one("fp6_3over2::Fp6::mul_assign_by_fp2", find_inherent(facts, U, C, "mul_assign_by_fp2", "fp6_3over2"), [ref(cubic("x")), leaf("e")], [a * V("e") for a in s6])
    one("fp6_3over2::Fp6::mul_by_fp2", find_inherent(facts, U, C, "mul_by_fp2", "fp6_3over2"), [ref(cubic("x")), ref(leaf("e"))], [a * V("e") for a in s6])
    # Fp12 sparse (Fp2 elements opaque; Fp6 structured)
    X12 = [sym3("x.c0"), sym3("x.c1")]
    mk12 = lambda: ref(quad("x", lambda n: cubic(n)))
    c3, c4 = V("c3"), V("c4")
    one("Fp12::mul_by_034", find_inherent(facts, U, C, "mul_by_034", "Fp12ConfigWrapper"), [mk12(), ref(leaf("c0")), ref(leaf("c3")), ref(leaf("c4"))],
        f12_mul(X12, [[c0, Z, Z], [c3, c4, Z]]))
    one("Fp12::mul_by_014", find_inherent(facts, U, C, "mul_by_014", "Fp12ConfigWrapper"), [mk12(), ref(leaf("c0")), ref(leaf("c1")), ref(leaf("c4"))],
        f12_mul(X12, [[c0, c1, Z], [Z, c4, Z]]))
    # Fp6 2over3 sparse (Fp leaves)
    X6 = [sym3("x.c0"), sym3("x.c1")]
    mk6 = lambda: ref(quad("x", lambda n: cubic(n)))
    one("fp6_2over3::Fp6::mul_by_034", find_inherent(facts, U, C, "mul_by_034", "fp6_2over3"), [mk6(), ref(leaf("c0")), ref(leaf("c3")), ref(leaf("c4"))],
        f6_2o3_mul(X6, [[c0, Z, Z], [c3, c4, Z]]))
    one("fp6_2over3::Fp6::mul_by_014", find_inherent(facts, U, C, "mul_by_014", "fp6_2over3"), [mk6(), ref(leaf("c0")), ref(leaf("c1")), ref(leaf("c4"))],
        f6_2o3_mul(X6, [[c0, c1, Z], [Z, c4, Z]]))
    # Fp4 scalings
    X4 = [sym2("x.c0"), sym2("x.c1")]
    mk4 = lambda: ref(quad("x", lambda n: quad(n)))
    e = V("e")
    one("Fp4::mul_by_fp", find_inherent(facts, U, C, "mul_by_fp", "Fp4ConfigWrapper"), [mk4(), ref(leaf("e"))], [[a * e for a in X4[0]], [a * e for a in X4[1]]])
    e2 = sym2("e")
    one("Fp4::mul_by_fp2", find_inherent(facts, U, C, "mul_by_fp2", "Fp4ConfigWrapper"), [mk4(), ref(quad("e"))], [f2_mul(X4[0], e2), f2_mul(X4[1], e2)])
    check_overrides(res, facts)
    check_frobenius(res, facts)


# ---- overrides in configuration crates -----------------------------------------------------------

HOOKS = {
    # trait suffix -> {method: (arg shapes, contract(y, x, beta-ish))}
    "fp2::Fp2Config": {
        "mul_fp_by_nonresidue_in_place": ("y", lambda y, x, b: [b * y]),
        "mul_fp_by_nonresidue_and_add": ("yx", lambda y, x, b: [x + b * y]),
        "mul_fp_by_nonresidue_plus_one_and_add": ("yx", lambda y, x, b: [x + b * y + y]),
        "sub_and_mul_fp_by_nonresidue": ("yx", lambda y, x, b: [x - b * y]),
    },
    "fp3::Fp3Config": {
        "mul_fp_by_nonresidue_in_place": ("y", lambda y, x, b: [b * y]),
    },
}


def check_overrides(res, facts):
    """every override of a non-residue hook in test-curves / curves/* satisfies the hook's contract for the
    configuration's own NONRESIDUE (identity checked modulo the configuration's prime)"""
    from arklib.configs import Registry
    rule = res.rule("R-POLY.overrides", "overridden non-residue hooks equal multiplication by the configuration's NONRESIDUE (identity modulo p)", 15)
    reg = Registry(facts, ("ws", "curves"))
    M = tower_models()
    for fn in facts.fns():
        if fn.unit not in ("ws", "curves") or fn.kind == "Closure" or not fn.trait_impl:
            continue
        tr = fn.trait_impl
        owner = fn.impl["self"]
        key = "%s|%s::%s" % (fn.crate, owner, fn.name)
        # --- Fp2 / Fp3 level hooks: scalar contracts
        for suf, table in HOOKS.items():
            if tr.endswith(suf) and fn.name in table:
                shape, contract = table[fn.name]
                nr = reg.const(owner, "NONRESIDUE", suf.split("::")[-1])
                if nr is None:
                    rule.undecided(key, "NONRESIDUE not in const table", fn.loc)
                    continue
                F = reg.field(nr["ty"])
                beta = reg.decode(nr["val"], nr["ty"])
                p = F.p
                bsym = Q.const(beta if beta <= p // 2 else beta - p)
                args = [ref(leaf("y"))] + ([ref(leaf("x"))] if "x" in shape else [])
                ex = SX.Engine(facts, fn.unit, M, max_paths=20, max_depth=5, inline_limit=200, const_value=lambda d, k, b=bsym: b if d.endswith("::NONRESIDUE") else None)
                paths = ex.run(fn, args)
                want = contract(V("y"), V("x"), bsym)
                verdict = None
                for pth in paths:
                    if not decided(pth):
                        verdict = ("undecided", sorted(pth.flags)[:3])
                        break
                    got = SX.q_of(ex.deref(pth.args.cell(1).v)) if pth.args is not None else None
                    if got is None:
                        verdict = ("undecided", "result not a ring value")
                        break
                    diff = (got - want[0]).n
                    if any(c % p for c in diff.t.values()):
                        verdict = ("bad", "computes %s, contract for NONRESIDUE = %s is %s" % (short(got), bsym, short(want[0])))
                        break
                if verdict is None:
                    rule.ok(key, "contract holds modulo p for NONRESIDUE = %s" % bsym, fn.loc)
                elif verdict[0] == "bad":
                    rule.bad(key, "override of %s: %s" % (fn.name, verdict[1]), fn.loc)
                else:
                    rule.undecided(key, str(verdict[1]), fn.loc)
        # --- Fp6 (3 over 2): multiply an Fp2 element by the configured xi
        if tr.endswith("fp6_3over2::Fp6Config") and fn.name in ("mul_fp2_by_nonresidue_in_place", "mul_fp2_by_nonresidue"):
            nr = reg.const(owner, "NONRESIDUE", "Fp6Config")
            if nr is None:
                rule.undecided(key, "NONRESIDUE not in const table", fn.loc)
                continue
            F2 = reg.field(nr["ty"])
            xi = reg.decode(nr["val"], nr["ty"])
            p = F2.char
            b2 = F2.beta
            sgn = lambda v: Q.const(v if v <= p // 2 else v - p)
            by_value = fn.name == "mul_fp2_by_nonresidue"
            args = [quad("y")] if by_value else [ref(quad("y"))]

            def cv(d, k, xi=xi, b2=b2):
                if d.endswith("fp2::Fp2Config::NONRESIDUE") or (d.endswith("QuadExtConfig::NONRESIDUE")):
                    return sgn(b2)
                if d.endswith("fp6_3over2::Fp6Config::NONRESIDUE"):
                    return SX.Obj(adt=QUAD, fields={0: sgn(xi[0]), 1: sgn(xi[1])})
                return None
            ex = SX.Engine(facts, fn.unit, M, max_paths=20, max_depth=7, inline_limit=300, const_value=cv)
            paths = ex.run(fn, args)
            want = f2_mul(sym2("y"), [sgn(xi[0]), sgn(xi[1])], sgn(b2))
            verdict = None
            for pth in paths:
                if not decided(pth):
                    verdict = ("undecided", sorted(pth.flags)[:3])
                    break
                got = flat(ex, pth.ret if by_value else pth.args.cell(1).v)
                if None in got or len(got) != 2:
                    verdict = ("undecided", "result not a pair of ring values")
                    break
                for g, w in zip(got, want):
                    if any(c % p for c in (g - w).n.t.values()):
                        verdict = ("bad", "computes (%s, %s); multiplication by xi = (%s, %s) is (%s, %s)" % (short(got[0], 60), short(got[1], 60), sgn(xi[0]), sgn(xi[1]), short(want[0], 60), short(want[1], 60)))
            if verdict is None:
                rule.ok(key, "equals multiplication by xi = (%s, %s) modulo p" % (sgn(xi[0]), sgn(xi[1])), fn.loc)
            elif verdict[0] == "bad":
                rule.bad(key, "override of %s: %s" % (fn.name, verdict[1]), fn.loc)
            else:
                rule.undecided(key, str(verdict[1]), fn.loc)


def check_frobenius(res, facts):
    """R-FROB wiring: each tower wrapper multiplies by TABLE[power % DEGREE]"""
    from arklib import dataflow as DF
    from arklib.facts import op_local
    rule = res.rule("R-FROB", "mul_base_field_by_frob_coeff of every tower wrapper indexes its Frobenius table with `power % DEGREE_OVER_BASE_PRIME_FIELD`", 6)
    for fn in facts.fns(unit="ws", crate="ark_ff"):
        if fn.name != "mul_base_field_by_frob_coeff" or not fn.trait_impl or fn.kind == "Closure":
            continue
        key = "ark_ff|%s" % fn.impl["self"][-70:]
        rems = []
        for bi, si, s in fn.stmts():
            r = s.get("r")
            if r and r["k"] == "bin" and r["op"] == "Rem":
                rems.append(r)
        tables = []
        for bi, si, s in fn.stmts():
            r = s.get("r")
            if not r:
                continue
            for o in (r.get("ops") or ([r["o"]] if "o" in r else [])):
                k = o.get("k") if isinstance(o, dict) else None
                if k and "FROBENIUS_COEFF" in (k.get("def") or ""):
                    tables.append(k["def"].rsplit("::", 1)[-1])
        power = fn.d["argc"]     # last parameter
        ok_rem = False
        for r in rems:
            a, b = r["a"], r["b"]
            la = op_local(a)
            kb = DF.direct_const(fn, b)
            if la is not None and DF.Dep(fn).args_in_slice([la]) == {power} and kb is not None and ("DEGREE_OVER_BASE_PRIME_FIELD" in (kb.get("def") or "") or "v" in kb):
                ok_rem = True
        muls = [t for _, t in fn.calls() if (t["f"].get("name") or "").startswith("mul")]
        ncoords = fn.d["argc"] - 1
        if not rems or not ok_rem:
            rule.bad(key, "Frobenius coefficient is not indexed with `power % DEGREE` of the power argument: powers >= the extension degree would index out of range or pick the wrong coefficient", fn.loc)
        elif not tables:
            rule.bad(key, "no Frobenius coefficient table is read", fn.loc)
        elif len(muls) < ncoords:
            rule.bad(key, "%d coordinate(s) passed but only %d multiplied by a coefficient" % (ncoords, len(muls)), fn.loc)
        else:
            rule.ok(key, "tables %s indexed by power %% DEGREE; %d multiplication(s)" % (sorted(set(tables)), len(muls)), fn.loc)
