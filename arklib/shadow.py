"""Generate a shadow cargo workspace for the crates under /repo/curves.

The real curves/ workspace does not resolve offline (git patch on ark-r1cs-std), so each curve crate
gets a generated manifest whose [lib] path points at the real sources in /repo/curves/<c>/src and
whose dependencies are path dependencies on /repo/{ff,ec,poly,serialize} and on sibling shadow
crates.  Feature tables are copied (minus r1cs/asm); every remaining feature is switched on so that
all of a crate's constants and overrides are compiled.
"""
import os, sys, tomllib, shutil, json

REPO = os.environ.get("ARK_REPO", "/repo")
SKIP_DIRS = {"curve-constraint-tests", "scripts"}
DROP_DEPS = {"ark-r1cs-std", "ark-relations", "ark-curve-constraint-tests"}
DROP_FEATURES = {"r1cs", "asm"}


def q(s):
    return json.dumps(s)


def generate(dest):
    curves = os.path.join(REPO, "curves")
    ws = tomllib.load(open(os.path.join(curves, "Cargo.toml"), "rb"))
    wsdeps = ws["workspace"]["dependencies"]
    crates = {}
    for d in sorted(os.listdir(curves)):
        p = os.path.join(curves, d, "Cargo.toml")
        if d in SKIP_DIRS or not os.path.isfile(p):
            continue
        m = tomllib.load(open(p, "rb"))
        crates[d] = m
    name2dir = {m["package"]["name"]: d for d, m in crates.items()}
    os.makedirs(dest, exist_ok=True)
    members = []
    for d, m in crates.items():
        name = m["package"]["name"]
        out = [f"[package]\nname = {q(name)}\nversion = \"0.5.0\"\nedition = \"2021\"\n",
               f"[lib]\npath = {q(os.path.join(curves, d, 'src', 'lib.rs'))}\n", "[dependencies]"]
        kept = set()
        for dep, spec in m.get("dependencies", {}).items():
            if dep in DROP_DEPS:
                continue
            if isinstance(spec, str):
                spec = {"version": spec}
            spec = dict(spec)
            if spec.pop("workspace", False):
                base = wsdeps[dep]
                base = {"version": base} if isinstance(base, str) else dict(base)
                feats = list(base.get("features", [])) + list(spec.get("features", []))
                base.update({k: v for k, v in spec.items() if k != "features"})
                if feats:
                    base["features"] = feats
                spec = base
            if spec.get("optional") and dep in DROP_DEPS:
                continue
            fields = []
            pkg = spec.get("package", dep)
            if pkg in name2dir:
                fields.append(f"path = {q(os.path.join('..', name2dir[pkg]))}")
            elif "path" in spec:
                fields.append(f"path = {q(os.path.normpath(os.path.join(curves, spec['path'])))}")
            else:
                fields.append(f"version = {q(spec.get('version', '*'))}")
            if "package" in spec:
                fields.append(f"package = {q(spec['package'])}")
            if spec.get("default-features") is False:
                fields.append("default-features = false")
            if spec.get("features"):
                fields.append("features = [" + ", ".join(q(f) for f in spec["features"] if f not in DROP_FEATURES) + "]")
            if spec.get("optional"):
                fields.append("optional = true")
            out.append(f"{dep} = {{ {', '.join(fields)} }}")
            kept.add(dep)
        feats = {}
        for f, lst in m.get("features", {}).items():
            if f in DROP_FEATURES or f == "default":
                continue
            keep = []
            for x in lst:
                head = x.replace("dep:", "").split("/")[0].rstrip("?")
                if x in DROP_FEATURES:
                    continue
                if ("/" in x or x.startswith("dep:")) and head not in kept:
                    continue
                if "/" in x and x.split("/")[1] in DROP_FEATURES:
                    continue
                keep.append(x)
            feats[f] = keep
        # keep `asm` declared (empty) so that cfg(feature = "asm") in derive output stays a known cfg
        out.append("\n[features]")
        on = [f for f in feats if f not in ("parallel",)]
        out.append("default = [" + ", ".join(q(f) for f in on) + "]")
        for f, lst in feats.items():
            out.append(f"{f} = [" + ", ".join(q(x) for x in lst) + "]")
        out.append("asm = []")
        if "r1cs" in m.get("features", {}):
            out.append("r1cs = []")
        os.makedirs(os.path.join(dest, d), exist_ok=True)
        open(os.path.join(dest, d, "Cargo.toml"), "w").write("\n".join(out) + "\n")
        members.append(d)
    prof = ""
    root = tomllib.load(open(os.path.join(REPO, "Cargo.toml"), "rb"))
    top = ["[workspace]", "members = [" + ", ".join(q(x) for x in members) + "]", 'resolver = "2"', ""]
    open(os.path.join(dest, "Cargo.toml"), "w").write("\n".join(top) + "\n")
    shutil.copy(os.path.join(REPO, "Cargo.lock"), os.path.join(dest, "Cargo.lock"))
    return members


if __name__ == "__main__":
    print(generate(sys.argv[1]))
