// arkfacts: rustc_private driver that dumps, for every crate it compiles, the facts the Python
// rule engines need: item table, MIR of every local body with resolved callees, impl table and
// the evaluated constant table. It never runs the analysed code; constants are whatever rustc's
// own const evaluation of the source yields.
//
// Invocation (RUSTC_WORKSPACE_WRAPPER): argv = [arkfacts, <rustc>, args...].
// Output: $ARKFACTS_OUT/<crate>-<hash of args>.json, one write per process.
#![feature(rustc_private)]
#![allow(clippy::all)]

extern crate rustc_abi;
extern crate rustc_const_eval;
extern crate rustc_driver;
extern crate rustc_hir;
extern crate rustc_interface;
extern crate rustc_middle;
extern crate rustc_session;
extern crate rustc_span;

mod consts;
mod json;
mod mir_dump;

use json::J;
use rustc_driver::Compilation;
use rustc_hir::def::DefKind;
use rustc_hir::def_id::{DefId, LOCAL_CRATE};
use rustc_middle::ty::{self, TyCtxt};
use std::hash::{Hash, Hasher};

struct Cb {
    out_dir: String,
    arg_hash: u64,
    cfgs: Vec<String>,
}

thread_local! { pub static CRATE: std::cell::RefCell<String> = std::cell::RefCell::new(String::new()); }

/// Replace the `crate::` prefix printed for local items by the crate's name, so that an item has
/// one spelling whether it is seen from its own crate or from a dependent.
pub fn fix_crate(s: String) -> String {
    if !s.contains("crate::") {
        return s;
    }
    let name = CRATE.with(|c| c.borrow().clone());
    let b = s.as_bytes();
    let mut out = String::with_capacity(s.len() + 16);
    let mut i = 0;
    while i < b.len() {
        if s[i..].starts_with("crate::") && (i == 0 || !(b[i - 1].is_ascii_alphanumeric() || b[i - 1] == b'_')) {
            out.push_str(&name);
            out.push_str("::");
            i += 7;
        } else {
            let ch = s[i..].chars().next().unwrap();
            out.push(ch);
            i += ch.len_utf8();
        }
    }
    out
}

pub fn ty_str<'tcx>(ty: ty::Ty<'tcx>) -> String {
    fix_crate(ty::print::with_no_visible_paths!(ty::print::with_no_trimmed_paths!(ty::print::with_crate_prefix!(format!("{}", ty)))))
}

pub fn show<T: std::fmt::Display>(x: T) -> String {
    fix_crate(ty::print::with_no_visible_paths!(ty::print::with_no_trimmed_paths!(ty::print::with_crate_prefix!(format!("{}", x)))))
}

/// Crate-qualified, un-trimmed def path. Local items get the crate name prepended so the same
/// item has the same id whether seen from its own crate or from a dependent.
pub fn path_str(tcx: TyCtxt<'_>, did: DefId) -> String {
    fix_crate(ty::print::with_no_visible_paths!(ty::print::with_no_trimmed_paths!(ty::print::with_crate_prefix!(tcx.def_path_str(did)))))
}

pub fn span_str(tcx: TyCtxt<'_>, sp: rustc_span::Span) -> (String, u32) {
    let sm = tcx.sess.source_map();
    // Use the call site of macro expansions so that generated code points at the user's source.
    let lo = sm.lookup_char_pos(sp.lo());
    let f = match &lo.file.name {
        rustc_span::FileName::Real(r) => {
            if let Some(p) = r.local_path() {
                p.to_string_lossy().to_string()
            } else {
                format!("{:?}", r)
            }
        }
        o => format!("{:?}", o),
    };
    (f, lo.line as u32)
}

impl rustc_driver::Callbacks for Cb {
    fn after_analysis<'tcx>(
        &mut self,
        _compiler: &rustc_interface::interface::Compiler,
        tcx: TyCtxt<'tcx>,
    ) -> Compilation {
        let crate_name = tcx.crate_name(LOCAL_CRATE).to_string();
        CRATE.with(|c| *c.borrow_mut() = crate_name.clone());
        if crate_name == "build_script_build" || crate_name.starts_with("build_script") {
            return Compilation::Continue;
        }
        // proc-macro crates: nothing to analyse post-expansion, except the literal parser of ark-ff-macros (C20)
        if crate_name != "ark_ff_macros" && tcx.crate_types().iter().any(|t| matches!(t, rustc_session::config::CrateType::ProcMacro)) {
            return Compilation::Continue;
        }
        let t0 = std::time::Instant::now();
        let mut fns: Vec<J> = Vec::new();
        let mut n_bb = 0usize;
        for ldid in tcx.hir_body_owners() {
            let did = ldid.to_def_id();
            let kind = tcx.def_kind(did);
            match kind {
                DefKind::Fn | DefKind::AssocFn | DefKind::Closure => {}
                _ => continue,
            }
            if let Some(j) = mir_dump::dump_fn(tcx, did, &mut n_bb) {
                fns.push(j);
            }
        }
        let impls = dump_impls(tcx);
        let adts = dump_adts(tcx);
        let consts = consts::dump_consts(tcx);
        let root = J::obj(vec![
            ("crate", J::s(&crate_name)),
            ("cfgs", J::A(self.cfgs.iter().map(|c| J::s(c)).collect())),
            ("n_fns", J::I(fns.len() as i128)),
            ("n_bbs", J::I(n_bb as i128)),
            ("fns", J::A(fns)),
            ("impls", impls),
            ("adts", adts),
            ("consts", consts),
            ("extract_ms", J::I(t0.elapsed().as_millis() as i128)),
        ]);
        let mut s = String::with_capacity(1 << 24);
        root.write(&mut s);
        let path = format!("{}/{}-{:016x}.json", self.out_dir, crate_name, self.arg_hash);
        let tmp = format!("{}.tmp{}", path, std::process::id());
        std::fs::write(&tmp, s).expect("arkfacts: cannot write fact file");
        std::fs::rename(&tmp, &path).expect("arkfacts: cannot rename fact file");
        Compilation::Continue
    }
}

fn dump_impls(tcx: TyCtxt<'_>) -> J {
    let mut out = Vec::new();
    for id in tcx.hir_crate_items(()).free_items() {
        let did = id.owner_id.to_def_id();
        let DefKind::Impl { of_trait } = tcx.def_kind(did) else { continue };
        let self_ty = tcx.type_of(did).instantiate_identity().skip_norm_wip();
        let self_head = match self_ty.kind() {
            ty::Adt(d, _) => J::S(path_str(tcx, d.did())),
            _ => J::Null,
        };
        let (sp_f, sp_l) = span_str(tcx, tcx.def_span(did));
        let generics = tcx.generics_of(did);
        let mut fields = vec![
            ("id", J::S(path_str(tcx, did))),
            ("self", J::S(ty_str(self_ty))),
            ("self_head", self_head),
            ("n_generics", J::I(generics.count() as i128)),
            ("derived", J::B(tcx.is_automatically_derived(did))),
            ("file", J::S(sp_f)),
            ("line", J::I(sp_l as i128)),
        ];
        let mut provided: Vec<J> = Vec::new();
        let mut provided_names: Vec<String> = Vec::new();
        for &it in tcx.associated_item_def_ids(did) {
            let ai = tcx.associated_item(it);
            provided_names.push(ai.opt_name().map(|s| s.to_string()).unwrap_or_else(|| "<rpitit>".to_string()));
            let mut rec = vec![
                ("name", J::S(ai.opt_name().map(|s| s.to_string()).unwrap_or_else(|| "<rpitit>".to_string()))),
                ("kind", J::S(format!("{:?}", tcx.def_kind(it)))),
                ("id", J::S(path_str(tcx, it))),
            ];
            if matches!(tcx.def_kind(it), DefKind::AssocTy) && ai.opt_name().is_some() {
                let t = tcx.type_of(it).instantiate_identity().skip_norm_wip();
                rec.push(("ty", J::S(ty_str(t))));
            }
            provided.push(J::obj(rec));
        }
        fields.push(("items", J::A(provided)));
        if of_trait {
            let tr = tcx.impl_trait_ref(did).instantiate_identity().skip_norm_wip();
            fields.push(("trait", J::S(path_str(tcx, tr.def_id))));
            fields.push(("trait_ref", J::S(show(tr))));
            fields.push((
                "trait_args",
                J::A(tr.args.iter().map(|a| J::S(show(a))).collect()),
            ));
            // trait items that the impl inherits (default bodies / default consts)
            let mut inherited = Vec::new();
            for &tit in tcx.associated_item_def_ids(tr.def_id) {
                let ai = tcx.associated_item(tit);
                if !provided_names.contains(&ai.opt_name().map(|s| s.to_string()).unwrap_or_else(|| "<rpitit>".to_string())) {
                    inherited.push(J::obj(vec![
                        ("name", J::S(ai.opt_name().map(|s| s.to_string()).unwrap_or_else(|| "<rpitit>".to_string()))),
                        ("kind", J::S(format!("{:?}", tcx.def_kind(tit)))),
                        ("id", J::S(path_str(tcx, tit))),
                    ]));
                }
            }
            fields.push(("inherited", J::A(inherited)));
        }
        out.push(J::obj(fields));
    }
    J::A(out)
}

fn dump_adts(tcx: TyCtxt<'_>) -> J {
    let mut out = Vec::new();
    for id in tcx.hir_crate_items(()).free_items() {
        let did = id.owner_id.to_def_id();
        match tcx.def_kind(did) {
            DefKind::Struct | DefKind::Enum | DefKind::Union => {}
            _ => continue,
        }
        let adt = tcx.adt_def(did);
        let mut vs = Vec::new();
        for v in adt.variants() {
            vs.push(J::obj(vec![
                ("name", J::S(v.name.to_string())),
                ("fields", J::A(v.fields.iter().map(|f| J::S(f.name.to_string())).collect())),
            ]));
        }
        out.push(J::obj(vec![("id", J::S(path_str(tcx, did))), ("variants", J::A(vs))]));
    }
    J::A(out)
}

fn main() {
    let mut args: Vec<String> = std::env::args().collect();
    // wrapper mode: argv[1] is the path of the real rustc
    if args.len() > 1 && (args[1].ends_with("rustc") || args[1].contains("/rustc")) {
        args.remove(1);
    }
    args[0] = "rustc".to_string();
    let out_dir = std::env::var("ARKFACTS_OUT").unwrap_or_else(|_| "/tmp/arkfacts_out".into());
    let _ = std::fs::create_dir_all(&out_dir);
    let mut h = std::collections::hash_map::DefaultHasher::new();
    let mut cfgs = Vec::new();
    let mut it = args.iter().peekable();
    while let Some(a) = it.next() {
        // the hash must separate feature configurations / targets of the same crate, but not
        // depend on the (random) target directory
        if a == "--cfg" {
            if let Some(v) = it.peek() {
                v.hash(&mut h);
                cfgs.push((*v).clone());
            }
        } else if a == "--crate-type" || a == "--test" || a == "--crate-name" {
            a.hash(&mut h);
            if let Some(v) = it.peek() {
                v.hash(&mut h);
            }
        }
    }
    let mut cb = Cb { out_dir, arg_hash: h.finish(), cfgs };
    // `rustc -vV` and friends (cargo probes) go straight through.
    rustc_driver::run_compiler(&args, &mut cb);
}
