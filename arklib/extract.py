"""Fact extraction: run the arkfacts driver over /repo's current working tree.

Units analysed (all rebuilt from the working tree, never from a snapshot):
  ws      the pinned workspace crates, default features, every test-curves feature
  par     the same with the `parallel` features of ff/ec/poly/serialize
  curves  a generated shadow workspace over /repo/curves/*        (see shadow.py)
  shapes  /verif/witness/shapes: our own field configurations / derive users, analysed like any crate

Facts are cached under /verif/.facts/<key>/ where <key> hashes the content of every source file
cargo could read under /repo plus the extractor's own sources; an edited tree always gets a new key.
"""
import os, sys, subprocess, hashlib, json, time, glob, shutil, fcntl

VERIF = os.path.dirname(os.path.dirname(os.path.abspath(__file__)))
REPO = os.environ.get("ARK_REPO", "/repo")
KEEP_KEYS = 10
DRIVER = os.path.join(VERIF, "arkfacts", "target", "release", "arkfacts")
FACTS = os.path.join(VERIF, ".facts")
CACHE = os.path.join(VERIF, ".cache")

TC_FEATURES = ["bls12_381_scalar_field", "bls12_381_curve", "ed_on_bls12_381", "mnt4_753_scalar_field",
               "mnt4_753_base_field", "mnt4_753_curve", "mnt6_753", "bn384_small_two_adicity_scalar_field",
               "bn384_small_two_adicity_base_field", "bn384_small_two_adicity_curve", "secp256k1"]
WS_PKGS = ["ark-serialize", "ark-ff", "ark-ec", "ark-poly", "ark-test-curves"]
WS_EXPECT = ["ark_serialize", "ark_ff", "ark_ec", "ark_poly", "ark_test_curves"]
PAR_FEATURES = ["ark-ff/parallel", "ark-ec/parallel", "ark-poly/parallel", "ark-serialize/parallel"]

UNITS = ["ws", "par", "curves", "shapes"]


def sh(cmd, **kw):
    return subprocess.run(cmd, shell=isinstance(cmd, str), text=True, capture_output=True, **kw)


def sysroot():
    return sh("rustc +nightly --print sysroot").stdout.strip()


def ensure_driver():
    src = glob.glob(os.path.join(VERIF, "arkfacts", "src", "*.rs"))
    if os.path.exists(DRIVER) and all(os.path.getmtime(DRIVER) >= os.path.getmtime(s) for s in src):
        return
    env = dict(os.environ, CARGO_NET_OFFLINE="true")
    r = sh("cargo build --release --offline", cwd=os.path.join(VERIF, "arkfacts"), env=env)
    if r.returncode != 0:
        sys.stderr.write(r.stdout + r.stderr)
        raise SystemExit("arkfacts driver failed to build")


def _hash_files(h, paths):
    for p in sorted(paths):
        try:
            with open(p, "rb") as f:
                data = f.read()
        except OSError:
            continue
        h.update(p.encode())
        h.update(b"\0")
        h.update(hashlib.sha256(data).digest())


def repo_key():
    h = hashlib.sha256()
    r = sh(["git", "-C", REPO, "ls-files", "-co", "--exclude-standard"])
    files = [os.path.join(REPO, f) for f in r.stdout.splitlines()
             if f.endswith((".rs", ".toml", ".lock")) and not f.startswith("target/")]
    _hash_files(h, files)
    own = glob.glob(os.path.join(VERIF, "arkfacts", "src", "*.rs")) + \
        [os.path.join(VERIF, "arklib", "shadow.py"), os.path.join(VERIF, "arklib", "extract.py")] + \
        glob.glob(os.path.join(VERIF, "witness", "shapes", "**", "*.rs"), recursive=True) + \
        glob.glob(os.path.join(VERIF, "witness", "shapes", "Cargo.toml"))
    _hash_files(h, own)
    return h.hexdigest()[:20]


def _cargo_env(out_dir, target_dir):
    env = dict(os.environ)
    env.update({
        "CARGO_NET_OFFLINE": "true",
        "LD_LIBRARY_PATH": os.path.join(sysroot(), "lib") + ":" + env.get("LD_LIBRARY_PATH", ""),
        "ARKFACTS_OUT": out_dir,
        "RUSTFLAGS": "-Zmir-opt-level=0 -Awarnings",
        "RUSTC_WORKSPACE_WRAPPER": DRIVER,
        "CARGO_TARGET_DIR": target_dir,
    })
    env.pop("RUSTC_WRAPPER", None)
    return env


def _forget_members(target_dir, prefixes):
    """Force cargo to re-run the wrapper for workspace members (it would otherwise replay a warm cache)."""
    fp = os.path.join(target_dir, "debug", ".fingerprint")
    if not os.path.isdir(fp):
        return
    for d in os.listdir(fp):
        if any(d.startswith(p) for p in prefixes):
            shutil.rmtree(os.path.join(fp, d), ignore_errors=True)


def _run_unit(unit, out_root):
    out_dir = os.path.join(out_root, unit)
    os.makedirs(out_dir, exist_ok=True)
    tgt = os.path.join(CACHE, "tgt-" + unit)
    os.makedirs(tgt, exist_ok=True)
    t0 = time.time()
    if unit in ("ws", "par"):
        feats = ["ark-test-curves/" + f for f in TC_FEATURES] + (PAR_FEATURES if unit == "par" else [])
        cmd = ["cargo", "+nightly", "check", "--offline"] + sum((["-p", p] for p in WS_PKGS), []) + \
              ["--features", ",".join(feats)]
        cwd = REPO
        _forget_members(tgt, ["ark-"])
        expect = WS_EXPECT
    elif unit == "curves":
        from . import shadow
        sdir = os.path.join(CACHE, "shadow")
        shutil.rmtree(sdir, ignore_errors=True)
        members = shadow.generate(sdir)
        cmd = ["cargo", "+nightly", "check", "--offline", "--workspace"]
        cwd = sdir
        _forget_members(tgt, ["ark-"])
        expect = ["ark_" + m for m in members]
    elif unit == "shapes":
        cwd = os.path.join(VERIF, "witness", "shapes")
        if not os.path.isdir(cwd):
            return {"unit": unit, "skipped": True, "files": 0, "wall_s": 0}
        if os.path.abspath(REPO) != "/repo":
            # development runs against a scratch worktree (ARK_REPO): the witness crate path-depends on /repo, so a copy
            # with its dependency paths rewritten is analysed instead (the registered commands never take this branch)
            alt = os.path.join(CACHE, "shapes-alt")
            shutil.rmtree(alt, ignore_errors=True)
            shutil.copytree(cwd, alt, ignore=shutil.ignore_patterns("target", "Cargo.lock"))
            mp = os.path.join(alt, "Cargo.toml")
            txt = open(mp).read().replace('"/repo/', '"%s/' % os.path.abspath(REPO))
            open(mp, "w").write(txt)
            cwd = alt
        shutil.copy(os.path.join(REPO, "Cargo.lock"), os.path.join(cwd, "Cargo.lock"))
        cmd = ["cargo", "+nightly", "check", "--offline"]
        _forget_members(tgt, ["verif-shapes", "verif_shapes"])
        expect = ["verif_shapes"]
    else:
        raise ValueError(unit)
    r = subprocess.run(cmd, cwd=cwd, env=_cargo_env(out_dir, tgt), text=True, capture_output=True)
    files = glob.glob(os.path.join(out_dir, "*.json"))
    fresh = [f for f in files if os.path.getmtime(f) >= t0 - 1]
    have = {os.path.basename(f).rsplit("-", 1)[0] for f in fresh}
    missing = [e for e in expect if e not in have]
    res = {"unit": unit, "rc": r.returncode, "files": len(fresh), "missing": missing, "wall_s": round(time.time() - t0, 1)}
    if r.returncode != 0 or missing:
        res["stderr_tail"] = r.stderr[-4000:]
    return res


def extract(units=None, verbose=True):
    """Return the facts directory for the current working tree, extracting if necessary."""
    ensure_driver()
    units = units or UNITS
    os.makedirs(FACTS, exist_ok=True)
    os.makedirs(CACHE, exist_ok=True)
    key = repo_key()
    root = os.path.join(FACTS, key)
    with open(os.path.join(FACTS, "lock"), "w") as lk:
        fcntl.flock(lk, fcntl.LOCK_EX)
        if os.path.isdir(root):
            os.utime(root, None)        # least-recently-USED eviction: a key that is being read stays
        status_p = os.path.join(root, "STATUS.json")
        status = json.load(open(status_p)) if os.path.exists(status_p) else {}
        todo = [u for u in units if not status.get(u, {}).get("ok")]
        if todo:
            # keep only the few newest keys (a concurrent run on another tree may still be loading its own)
            olds = sorted((os.path.join(FACTS, d) for d in os.listdir(FACTS) if os.path.isdir(os.path.join(FACTS, d)) and d != key),
                          key=lambda p: os.path.getmtime(p), reverse=True)
            for p in olds[KEEP_KEYS - 1:]:
                shutil.rmtree(p, ignore_errors=True)
            os.makedirs(root, exist_ok=True)
            from concurrent.futures import ThreadPoolExecutor
            with ThreadPoolExecutor(max_workers=len(todo)) as ex:
                results = list(ex.map(lambda u: _run_unit(u, root), todo))
            for res in results:
                res["ok"] = (res.get("rc", 0) == 0 and not res.get("missing")) or res.get("skipped", False)
                status[res["unit"]] = res
                if verbose:
                    sys.stderr.write("[extract] %s\n" % json.dumps({k: v for k, v in res.items() if k != "stderr_tail"}))
                if not res["ok"] and verbose:
                    sys.stderr.write(res.get("stderr_tail", "") + "\n")
            json.dump(status, open(status_p, "w"), indent=1)
    return root, status


if __name__ == "__main__":
    root, st = extract(sys.argv[1:] or None)
    print(root)
    print(json.dumps({u: {k: v for k, v in s.items() if k != "stderr_tail"} for u, s in st.items()}, indent=1))
