"""R-ITEROVERRIDE -- an `impl Iterator` that overrides a provided method (`nth`, `size_hint`) must agree with `next`.

`skip`, `step_by`, `nth` on an iterator are routed by std to the type's own `nth`; an override that is right on a fresh
iterator can still be wrong on one that has been advanced (end guard ignoring the position, cursor not exhausted on an
overshoot).  Decided by evaluation of the MIR of `next` and of the override on small concrete states (symbolic ring
elements for field-valued state): from every start state, after every number of preliminary `next` calls, `nth(k)` must
return what k + 1 calls of `next` return, and the items produced afterwards must be the same (bounded drain).
`size_hint` must bracket the number of items `next` still yields.  Types without overrides are recorded as such.  The rule
is supplementary (no verdict when the engine cannot follow a body); a positive example and its correct twin in
/verif/witness/shapes keep it from going blind."""
import copy
from arklib import symex as SX
from arklib.poly import Q
from rules import c07_dft, c08_arith

ITER = "core::iter::traits::iterator::Iterator"


def _norm(v):
    if isinstance(v, SX.Obj):
        if v.variant == "None":
            return "None"
        if v.variant == "Some":
            return ("Some", _norm(v.fields.get(0)))
        if v.adt in ("tuple", "array"):
            return tuple(_norm(v.fields[i]) for i in sorted(v.fields))
    q = SX.q_of(v) if not isinstance(v, (bool, int)) else None
    if q is not None:
        return str(q)
    return v if isinstance(v, (bool, int, str)) else repr(v)


class _Eval:
    def __init__(self, facts, unit):
        self.facts, self.unit = facts, unit

    def call(self, fn, st, extra=()):
        ex = SX.Engine(self.facts, self.unit, c07_dft._models(c08_arith._first), max_paths=8, max_depth=8, inline_limit=600, max_visits=100000)
        ex.strict_flow = True
        st = copy.deepcopy(st)
        try:
            ps = [p for p in ex.run(fn, [SX.Ref(SX.Cell(st))] + list(extra)) if "panic" not in p.flags and "unmodelled:panic" not in p.flags]
        except RecursionError:
            return None
        if len(ps) != 1 or ps[0].flags or ps[0].args is None:
            return None
        return ps[0].ret, copy.deepcopy(ex.deref(ps[0].args.cell(1).v))

    def drain(self, nx, st, bound):
        out = []
        for _ in range(bound):
            r = self.call(nx, st)
            if r is None:
                return None
            v, st = r
            out.append(_norm(v))
            if out[-1] == "None":
                return out
        return out + ["...(not exhausted after %d items)" % bound]


def overrides(facts, unit, crate, frag):
    out = {}
    for f in facts.fns(unit=unit, crate=crate):
        if f.kind != "Closure" and (f.trait_impl or "") == ITER and (f.self_head or "").endswith(frag) and "::tests::" not in f.id:
            out[f.name] = f
    return out


def decide(facts, unit, crate, frag, states, ks, pre, bound):
    """-> ('ok'|'bad'|'noverdict'|'missing', message, loc)"""
    fns = overrides(facts, unit, crate, frag)
    nx = fns.get("next")
    if nx is None:
        return "missing", "no `next` found for %s" % frag, ""
    extra = sorted(n for n in fns if n not in ("next",))
    if not extra:
        return "ok", "only `next` is implemented: skip / step_by / nth use the provided methods", nx.loc
    ev = _Eval(facts, unit)
    n_cmp = 0
    for name in extra:
        if name not in ("nth", "size_hint"):
            return "noverdict", "override of `%s` is not modelled" % name, fns[name].loc
    for s0 in states:
        for a in pre:
            st = s0
            for _ in range(a):
                r = ev.call(nx, st)
                if r is None:
                    return "noverdict", "`next` not evaluable", nx.loc
                st = r[1]
            rest = ev.drain(nx, st, bound)
            if rest is None:
                return "noverdict", "`next` not evaluable", nx.loc
            if "size_hint" in fns:
                r = ev.call(fns["size_hint"], st)
                h = _norm(r[0]) if r is not None else None
                if not (isinstance(h, tuple) and len(h) == 2 and isinstance(h[0], int)):
                    return "noverdict", "`size_hint` not evaluable", fns["size_hint"].loc
                left = len(rest) - 1
                hi = h[1][1] if isinstance(h[1], tuple) else None
                if rest[-1] == "None" and (h[0] > left or (isinstance(hi, int) and hi < left)):
                    return "bad", "after %d next() calls size_hint returns %s but %d items are left" % (a, h, left), fns["size_hint"].loc
                n_cmp += 1
            if "nth" in fns:
                for k in ks:
                    r1 = ev.call(fns["nth"], st, [k])
                    if r1 is None:
                        return "noverdict", "`nth` not evaluable (start after %d items, k = %d)" % (a, k), fns["nth"].loc
                    want = rest[k] if k < len(rest) else "None"
                    got = _norm(r1[0])
                    if got != want:
                        return "bad", "after %d next() calls nth(%d) returns %s; %d calls of next() return %s" % (a, k, str(got)[:80], k + 1, str(want)[:80]), fns["nth"].loc
                    after = ev.drain(nx, r1[1], bound)
                    want_after = rest[k + 1:] if k + 1 < len(rest) else ["None"]
                    if after is None:
                        return "noverdict", "`next` after nth not evaluable", fns["nth"].loc
                    if after != want_after:
                        return "bad", "after %d next() calls and nth(%d) (which returned %s) the iterator goes on with %s; after %d calls of next() it goes on with %s" % (
                            a, k, str(got)[:40], [str(x)[:30] for x in after[:4]], k + 1, [str(x)[:30] for x in want_after[:4]]), fns["nth"].loc
                    n_cmp += 1
    return "ok", "overrides %s agree with next on %d (state, advance, k) combinations" % ("/".join(extra), n_cmp), fns[extra[0]].loc


def _count_state(adt, cur, end):
    return SX.Obj(adt=adt, fields={0: cur, 1: end})


def check(res, facts, shapes, targets, label):
    """targets: list of (key, unit-facts, unit, crate, type fragment, states, ks, pre, bound)"""
    rule = res.rule("R-ITEROVERRIDE", "iterator types of %s: an overridden nth / size_hint agrees with next() from every position (fresh and advanced iterators, overshoot included) [evaluation of the MIR on small concrete states]" % label, 0)
    w = {}
    for nm in ("CountUp", "CountUpOk"):
        v = decide(shapes, "shapes", "verif_shapes", "::" + nm, [_count_state("verif_shapes::positive::" + nm, 0, 5)], range(0, 8), (0, 2, 5), 8)
        w[nm] = v[0]
    if w.get("CountUp") == "bad" and w.get("CountUpOk") == "ok":
        rule.ok("witness|CountUp", "positive example matched, correct twin accepted")
    else:
        rule.bad("witness|CountUp", "the positive example in /verif/witness/shapes was not matched (or its twin was): rule has gone blind (%s)" % w)
    for key, unit, crate, frag, states, ks, pre, bound in targets:
        verdict, msg, loc = decide(facts, unit, crate, frag, states, ks, pre, bound)
        if verdict == "ok":
            rule.ok(key, msg, loc)
        elif verdict == "bad":
            rule.bad(key, msg, loc)
        elif verdict == "missing":
            rule.bad(key, "anchor missing: " + msg)
        else:
            rule.noverdict(key, msg, loc)


def check_width(res, facts):
    """BitIteratorBE::new / BitIteratorLE::new over n limbs yield exactly 64 n bits -- leading zero limbs included -- in
    most- resp. least-significant-first order.  Consumers pair two such streams by position (glv_mul_affine zips the bits of
    k1 and k2; to_bits_be promises full width), so a constructor that trims insignificant limbs misaligns them."""
    rule = res.rule("R-BITITER.width", "BitIteratorBE::new / BitIteratorLE::new over n limbs yield exactly the 64 n bits of the integer, zero limbs included (streams of two scalars are zipped by position in GLV) [evaluation of the MIR on concrete limb vectors]", 0)
    ev = _Eval(facts, "ws")
    for nm, msb_first in (("BitIteratorBE", True), ("BitIteratorLE", False)):
        key = "ark_ff|%s::new" % nm
        fs = [f for f in facts.fns(unit="ws", crate="ark_ff") if f.kind != "Closure" and f.name == "new" and (f.self_head or "").endswith("bits::" + nm)]
        nx = overrides(facts, "ws", "ark_ff", "bits::" + nm).get("next")
        if not fs or nx is None:
            rule.bad(key, "anchor missing")
            continue
        verdict = None
        for limbs in ((5, 0), (0, 0), (0x8000000000000001, 7, 0), (3,)):
            ex = SX.Engine(facts, "ws", c07_dft._models(c08_arith._first), max_paths=8, max_depth=8, inline_limit=600, max_visits=100000)
            ex.strict_flow = True
            ps = [p for p in ex.run(fs[0], [SX.Ref(SX.Cell(SX.Obj(adt="array", fields=dict(enumerate(limbs)))))]) if "panic" not in p.flags]
            if len(ps) != 1 or ps[0].flags or not isinstance(ps[0].ret, SX.Obj):
                verdict = ("noverdict", "constructor not evaluable on %d limbs" % len(limbs))
                break
            seq = ev.drain(nx, ps[0].ret, 64 * len(limbs) + 2)
            if seq is None:
                verdict = ("noverdict", "`next` not evaluable")
                break
            value = sum(l << (64 * i) for i, l in enumerate(limbs))
            bits = [bool((value >> i) & 1) for i in range(64 * len(limbs))]
            want = [("Some", b) for b in (reversed(bits) if msb_first else bits)] + ["None"]
            if seq != want:
                got_n = len(seq) - 1 if seq and seq[-1] == "None" else len(seq)
                verdict = ("bad", "over the limbs %s the iterator yields %d bits%s; expected all %d bits of the %d-limb integer, %s-significant first" % (
                    [hex(l) for l in limbs], got_n, "" if got_n != 64 * len(limbs) else " (wrong values)", 64 * len(limbs), len(limbs), "most" if msb_first else "least"))
                break
        if verdict is None:
            rule.ok(key, "4 limb vectors (zero top limbs, all-zero, single limb): exactly 64 n bits in order", fs[0].loc)
        elif verdict[0] == "bad":
            rule.bad(key, verdict[1], fs[0].loc)
        else:
            rule.noverdict(key, verdict[1], fs[0].loc)
