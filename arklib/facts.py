"""Loading and querying arkfacts output: functions, CFGs, dominators, def-use, call sites."""
import json, os, glob, re
from collections import defaultdict


class Fn:
    __slots__ = ("d", "id", "crate", "_succ", "_pred", "_dom", "_pdom", "_defs", "_uses", "unit")

    def __init__(self, d, crate, unit):
        self.d = d
        self.id = d["id"]
        self.crate = crate
        self.unit = unit
        self._succ = self._pred = self._dom = self._pdom = self._defs = self._uses = None

    # ---- basic accessors
    @property
    def name(self):
        return self.d.get("name", "")

    @property
    def bbs(self):
        return self.d["bbs"]

    @property
    def kind(self):
        return self.d["kind"]

    @property
    def loc(self):
        return "%s:%s" % (self.d.get("file", "?"), self.d.get("line", "?"))

    @property
    def impl(self):
        return self.d.get("impl")

    @property
    def trait_impl(self):
        im = self.d.get("impl")
        return im.get("trait") if im else None

    @property
    def self_head(self):
        im = self.d.get("impl")
        return im.get("self_head") if im else None

    @property
    def default_of(self):
        return self.d.get("trait_default_of")

    def local_ty(self, l):
        return self.d["locals"][l]

    def dbg_names(self):
        out = {}
        for name, p in self.d.get("dbg", []):
            if isinstance(p, int):
                out.setdefault(p, name)
            elif isinstance(p, list):
                out.setdefault(p[0], name + "(proj)")
        return out

    # ---- CFG
    def succ(self):
        if self._succ is None:
            s = []
            for b in self.bbs:
                s.append(term_succs(b["t"]))
            self._succ = s
            p = [[] for _ in s]
            for i, ss in enumerate(s):
                for x in ss:
                    p[x].append(i)
            self._pred = p
        return self._succ

    def pred(self):
        self.succ()
        return self._pred

    def exits(self):
        return [i for i, b in enumerate(self.bbs) if b["t"]["k"] == "return"]

    def dom(self):
        """immediate dominators (list, entry's idom = itself); unreachable blocks get None"""
        if self._dom is None:
            self._dom = _idoms(len(self.bbs), [0], self.succ(), self.pred())
        return self._dom

    def pdom(self):
        """immediate post-dominators wrt a virtual exit (index n); blocks that cannot reach an exit get None.
        Exit = return blocks only (panics/aborts are not normal exits)."""
        if self._pdom is None:
            n = len(self.bbs)
            succ = [list(s) for s in self.succ()] + [[]]
            for e in self.exits():
                succ[e] = succ[e] + [n]
            pred = [[] for _ in range(n + 1)]
            for i, ss in enumerate(succ):
                for x in ss:
                    pred[x].append(i)
            self._pdom = _idoms(n + 1, [n], pred, succ)
        return self._pdom

    def dominates(self, a, b):
        d = self.dom()
        if d[b] is None:
            return False
        while True:
            if b == a:
                return True
            nb = d[b]
            if nb == b or nb is None:
                return False
            b = nb

    def postdominates(self, a, b):
        """a post-dominates b (every path from b to a normal return passes a)"""
        d = self.pdom()
        if d[b] is None:
            return False
        n = len(self.bbs)
        while True:
            if b == a:
                return True
            nb = d[b]
            if nb == b or nb is None or nb == n:
                return a == nb
            b = nb

    def reachable_from(self, start, avoid=frozenset()):
        seen = set()
        st = [start] if start not in avoid else []
        succ = self.succ()
        while st:
            x = st.pop()
            if x in seen:
                continue
            seen.add(x)
            for y in succ[x]:
                if y not in seen and y not in avoid:
                    st.append(y)
        return seen

    def can_reach_exit_avoiding(self, start, avoid):
        """is there a path start -> return that does not pass any block in `avoid`?"""
        if start in avoid:
            return False
        r = self.reachable_from(start, frozenset(avoid))
        return any(e in r for e in self.exits())

    # ---- statements / calls
    def calls(self):
        for i, b in enumerate(self.bbs):
            t = b["t"]
            if t["k"] in ("call", "tailcall"):
                yield i, t

    def stmts(self):
        for i, b in enumerate(self.bbs):
            for j, s in enumerate(b["s"]):
                yield i, j, s

    def defs(self):
        """local -> list of (bb, idx|'t', kind, payload) definitions (any write through the local's own storage).
        Writes through a deref of a pointer local are recorded under ('*', local)."""
        if self._defs is None:
            d = defaultdict(list)
            for i, b in enumerate(self.bbs):
                for j, s in enumerate(b["s"]):
                    if "d" in s:
                        l, projs = place_parts(s["d"])
                        key = ("*", l) if projs and projs[0] == "*" else l
                        d[key].append((i, j, "assign", s))
                    elif "setdiscr" in s:
                        l, projs = place_parts(s["setdiscr"])
                        d[l].append((i, j, "setdiscr", s))
                t = b["t"]
                if t["k"] == "call":
                    l, projs = place_parts(t["d"])
                    key = ("*", l) if projs and projs[0] == "*" else l
                    d[key].append((i, "t", "call", t))
            self._defs = d
        return self._defs


def term_succs(t):
    k = t["k"]
    if k == "goto":
        return [t["t"]]
    if k == "switch":
        return list(dict.fromkeys(t["tgts"] + [t["else"]]))
    if k in ("call", "drop", "assert"):
        out = []
        if t.get("t") is not None:
            out.append(t["t"])
        if t.get("u") is not None:
            out.append(t["u"])
        return out
    if k == "asm":
        return list(t.get("tgts", []))
    return []


def _idoms(n, roots, succ, pred):
    """Cooper-Harvey-Kennedy. `roots` is a list with one root."""
    root = roots[0]
    order = []
    seen = [False] * n
    stack = [(root, iter(succ[root]))]
    seen[root] = True
    while stack:
        node, it = stack[-1]
        adv = False
        for s in it:
            if not seen[s]:
                seen[s] = True
                stack.append((s, iter(succ[s])))
                adv = True
                break
        if not adv:
            order.append(node)
            stack.pop()
    rpo = order[::-1]
    num = {b: i for i, b in enumerate(rpo)}
    idom = [None] * n
    idom[root] = root
    changed = True
    while changed:
        changed = False
        for b in rpo[1:]:
            new = None
            for p in pred[b]:
                if idom[p] is None:
                    continue
                if new is None:
                    new = p
                else:
                    f1, f2 = p, new
                    while f1 != f2:
                        while num[f1] > num[f2]:
                            f1 = idom[f1]
                        while num[f2] > num[f1]:
                            f2 = idom[f2]
                    new = f1
            if new is not None and idom[b] != new:
                idom[b] = new
                changed = True
    return idom


# ---- places / operands ------------------------------------------------------------------------

def place_parts(p):
    """-> (local, [proj...])"""
    if isinstance(p, int):
        return p, []
    return p[0], p[1]


def op_place(o):
    """operand -> place or None"""
    if "c" in o:
        return o["c"]
    if "m" in o:
        return o["m"]
    return None


def op_local(o):
    p = op_place(o)
    if p is None:
        return None
    return place_parts(p)[0]


def op_const(o):
    return o.get("k")


def op_fn(o):
    k = o.get("k")
    if k and "fn" in k:
        return k["fn"]
    return None


def rv_operands(r):
    k = r["k"]
    if k in ("use", "repeat", "cast", "un"):
        return [r["o"]]
    if k == "bin":
        return [r["a"], r["b"]]
    if k == "agg":
        return list(r["ops"])
    return []


def rv_places(r):
    """places read (by value or by reference) by the rvalue"""
    out = [op_place(o) for o in rv_operands(r)]
    if r["k"] in ("ref", "raw", "discr"):
        out.append(r["p"])
    return [p for p in out if p is not None]


# ---- callee matching --------------------------------------------------------------------------

def callee_name(f):
    return f.get("name", "")


def callee_path(f):
    return f.get("path", "")


def callee_res(f):
    """the most specific known target: resolved instance path if any, else declared path"""
    return f.get("res") or f.get("path", "")


def is_call_to(t, name=None, trait=None, path_re=None, self_head=None):
    f = t.get("f", {})
    if "path" not in f:
        return False
    if name is not None:
        if isinstance(name, (set, frozenset, tuple, list)):
            if f.get("name") not in name:
                return False
        elif f.get("name") != name:
            return False
    if trait is not None and not (f.get("trait", "") == trait or f.get("trait", "").endswith("::" + trait)):
        return False
    if self_head is not None and not (f.get("self_head", "") == self_head or f.get("self_head", "").endswith("::" + self_head)):
        return False
    if path_re is not None and not (re.search(path_re, f.get("path", "")) or re.search(path_re, f.get("res", "") or "")):
        return False
    return True


# ---- whole-program container ------------------------------------------------------------------

class Crate:
    def __init__(self, d, unit, path):
        self.d = d
        self.name = d["crate"]
        self.unit = unit
        self.path = path
        self.fns = [Fn(f, self.name, unit) for f in d["fns"]]
        self.impls = d["impls"]
        self.consts = d["consts"]
        self.adts = d["adts"]


class Facts:
    """All crates of one or more units."""

    def __init__(self, root, units):
        self.root = root
        self.crates = []
        self.by_id = {}
        self.by_name = defaultdict(list)
        for u in units:
            for p in sorted(glob.glob(os.path.join(root, u, "*.json"))):
                d = json.load(open(p))
                if "fns" not in d:
                    continue
                c = Crate(d, u, p)
                self.crates.append(c)
                for f in c.fns:
                    self.by_id.setdefault((u, f.id), f)
                    self.by_name[f.name].append(f)

    def fns(self, unit=None, crate=None):
        for c in self.crates:
            if unit and c.unit != unit:
                continue
            if crate and c.name != crate:
                continue
            yield from c.fns

    def crate(self, name, unit=None):
        for c in self.crates:
            if c.name == name and (unit is None or c.unit == unit):
                return c
        return None

    def get(self, fid, unit=None):
        for c in self.crates:
            if unit and c.unit != unit:
                continue
            for f in c.fns:
                if f.id == fid:
                    return f
        return None

    def find(self, regex, unit=None, crate=None):
        rx = re.compile(regex)
        return [f for f in self.fns(unit, crate) if rx.search(f.id)]

    def closures_of(self, fn):
        out = []
        for c in self.crates:
            if c.unit != fn.unit or c.name != fn.crate:
                continue
            for f in c.fns:
                if f.kind == "Closure" and f.d.get("parent") == fn.id:
                    out.append(f)
        return out

    def stats(self):
        return {
            "crates": sorted({"%s/%s" % (c.unit, c.name) for c in self.crates}),
            "functions": sum(len(c.fns) for c in self.crates),
            "basic_blocks": sum(c.d.get("n_bbs", 0) for c in self.crates),
            "impls": sum(len(c.impls) for c in self.crates),
            "consts": sum(len(c.consts) for c in self.crates),
        }


def closure_args(fn, t):
    """closure def-ids passed (by value or by reference) as arguments of call terminator t"""
    out = []
    defs = fn.defs()
    for a in t.get("args", []):
        l = op_local(a)
        seen = 0
        while l is not None and seen < 4:
            seen += 1
            ds = [d for d in defs.get(l, []) if d[2] == "assign"]
            if len(ds) != 1:
                break
            r = ds[0][3]["r"]
            if r["k"] == "agg" and r.get("ak") == "closure":
                out.append(r["closure"])
                break
            if r["k"] in ("use", "cast"):
                l = op_local(r["o"])
            elif r["k"] == "ref":
                l = place_parts(r["p"])[0]
            else:
                break
    return out
