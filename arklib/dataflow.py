"""Intra-procedural dataflow over arkfacts MIR: flow-insensitive dependence graph with pointer
(&mut) tracking, backward slices, constant evaluation of configuration branches, reachability
under configuration assumptions, control dependence."""
from collections import defaultdict
from .facts import place_parts, op_place, op_local, rv_operands, rv_places, term_succs


class Dep:
    """Dependence graph of one function.

    node = local index.  deps[l] = set of locals whose value may flow into l.
    events[l] = list of producing events:  ('call', bb, term) | ('const', constdict) | ('arg',) |
                ('rv', bb, idx, rvalue)
    pointee[x] = set of locals y such that x may hold &mut/& of (part of) y.
    """

    def __init__(self, fn):
        self.fn = fn
        self.deps = defaultdict(set)
        self.events = defaultdict(list)
        self.pointee = defaultdict(set)
        argc = fn.d["argc"]
        for a in range(1, argc + 1):
            self.events[a].append(("arg", a))
        self._build()

    def _targets(self, place):
        """locals written when `place` is assigned"""
        l, projs = place_parts(place)
        if projs and projs[0] == "*":
            # write through pointer l: the pointees (and l itself stands for '*l' when l is an argument)
            t = set(self.pointee.get(l, ()))
            t.add(l)
            return t
        return {l}

    def _build(self):
        fn = self.fn
        # pass 1: pointer relations (iterate to fixpoint; chains are short)
        for _ in range(4):
            changed = False
            for _, _, s in fn.stmts():
                if "d" not in s:
                    continue
                dl, dprojs = place_parts(s["d"])
                r = s["r"]
                if r["k"] in ("ref", "raw"):
                    pl, pprojs = place_parts(r["p"])
                    if pprojs and pprojs[0] == "*":
                        new = set(self.pointee.get(pl, ())) | {pl}
                    else:
                        new = {pl}
                    if not dprojs and not new <= self.pointee[dl]:
                        self.pointee[dl] |= new
                        changed = True
                elif r["k"] == "use" or r["k"] == "cast":
                    sl = op_local(r["o"])
                    if sl is not None and not dprojs and self.pointee.get(sl) and not self.pointee[sl] <= self.pointee[dl]:
                        self.pointee[dl] |= self.pointee[sl]
                        changed = True
            if not changed:
                break
        # pass 2: dependences
        for bi, b in enumerate(fn.bbs):
            for si, s in enumerate(b["s"]):
                if "d" not in s:
                    continue
                r = s["r"]
                srcs = set()
                for p in rv_places(r):
                    l, projs = place_parts(p)
                    srcs.add(l)
                    for pr in projs:
                        if isinstance(pr, list) and pr[0] == "i":
                            srcs.add(pr[1])
                    if projs and projs[0] == "*":
                        srcs |= self.pointee.get(l, set())
                dl, dprojs = place_parts(s["d"])
                for pr in dprojs:
                    if isinstance(pr, list) and pr[0] == "i":
                        srcs.add(pr[1])
                for t in self._targets(s["d"]):
                    self.deps[t] |= srcs
                    self.events[t].append(("rv", bi, si, r))
                for o in rv_operands(r):
                    if "k" in o:
                        for t in self._targets(s["d"]):
                            self.events[t].append(("const", o["k"]))
            t = b["t"]
            if t["k"] == "call":
                srcs = set()
                ptr_args = []
                for a in t["args"]:
                    l = op_local(a)
                    if l is None:
                        continue
                    srcs.add(l)
                    srcs |= self.pointee.get(l, set())
                    if self.pointee.get(l) or self.fn.local_ty(l).startswith("&mut"):
                        ptr_args.append(l)
                tg = set(self._targets(t["d"]))
                # callee may write through &mut arguments
                for l in ptr_args:
                    if self.fn.local_ty(l).startswith("&mut"):
                        tg |= self.pointee.get(l, set()) | {l}
                for x in tg:
                    self.deps[x] |= srcs
                    self.events[x].append(("call", bi, t))
                    for a in t["args"]:
                        if "k" in a:
                            self.events[x].append(("const", a["k"]))

    def slice(self, locals_, stop=None):
        """transitive closure of deps from the given locals -> set of locals.
        stop(local) -> True: the local is included but its own dependences are not followed."""
        seen = set()
        st = list(locals_)
        while st:
            x = st.pop()
            if x in seen:
                continue
            seen.add(x)
            if stop is not None and stop(x):
                continue
            st.extend(self.deps.get(x, ()))
            # reading a pointer reads its pointees
            st.extend(self.pointee.get(x, ()))
        return seen

    def slice_events(self, locals_):
        sl = self.slice(locals_)
        out = []
        for l in sl:
            out.extend(self.events.get(l, ()))
        return sl, out

    def calls_in_slice(self, locals_):
        _, ev = self.slice_events(locals_)
        seen = set()
        out = []
        for e in ev:
            if e[0] == "call" and e[1] not in seen:
                seen.add(e[1])
                out.append((e[1], e[2]))
        return out

    def consts_in_slice(self, locals_):
        _, ev = self.slice_events(locals_)
        return [e[1] for e in ev if e[0] == "const"]

    def args_in_slice(self, locals_):
        sl = self.slice(locals_)
        return {l for l in sl if 1 <= l <= self.fn.d["argc"]}


# ---- configuration-constant evaluation ----------------------------------------------------------

def const_key(k):
    """name of a configuration constant operand, or None"""
    if k is None:
        return None
    if "def" in k and "promoted" not in k:
        return k["def"].rsplit("::", 1)[-1]
    if "param" in k:
        return k["param"]
    return None


class CfgEval:
    """Evaluate locals that are functions of configuration constants / const params only, under an
    assumption `env` (name -> value).  Unknown -> None."""

    def __init__(self, fn, env):
        self.fn = fn
        self.env = env
        self.single = {}
        for l, ds in fn.defs().items():
            if isinstance(l, int) and len(ds) == 1:
                self.single[l] = ds[0]
        self.memo = {}

    def operand(self, o):
        if "k" in o:
            k = o["k"]
            if "v" in k:
                return k["v"]
            key = const_key(k)
            if key is not None and key in self.env:
                return self.env[key]
            return None
        p = op_place(o)
        l, projs = place_parts(p)
        if projs:
            return None
        return self.local(l)

    def local(self, l):
        if l in self.memo:
            return self.memo[l]
        self.memo[l] = None
        d = self.single.get(l)
        v = None
        if d and d[2] == "assign":
            r = d[3]["r"]
            k = r["k"]
            if k == "use":
                v = self.operand(r["o"])
            elif k == "un" and r["op"] == "Not":
                x = self.operand(r["o"])
                if isinstance(x, bool):
                    v = not x
            elif k == "bin":
                a, b = self.operand(r["a"]), self.operand(r["b"])
                if a is not None and b is not None and not isinstance(a, (dict, list)) and not isinstance(b, (dict, list)):
                    op = r["op"]
                    try:
                        v = {"Eq": lambda: a == b, "Ne": lambda: a != b, "Lt": lambda: a < b, "Le": lambda: a <= b,
                             "Gt": lambda: a > b, "Ge": lambda: a >= b, "BitAnd": lambda: a & b, "BitOr": lambda: a | b,
                             "Add": lambda: a + b, "Sub": lambda: a - b, "Mul": lambda: a * b}.get(op, lambda: None)()
                    except Exception:
                        v = None
            elif k == "cast":
                v = self.operand(r["o"])
        self.memo[l] = v
        return v


def reach_under(fn, env, start=0):
    """basic blocks reachable from `start` when branches on configuration constants are resolved by env"""
    ev = CfgEval(fn, env)
    seen = set()
    st = [start]
    decided = []
    while st:
        b = st.pop()
        if b in seen:
            continue
        seen.add(b)
        t = fn.bbs[b]["t"]
        if t["k"] == "switch":
            v = ev.operand(t["o"])
            if v is not None and not isinstance(v, (dict, list)):
                iv = int(v)
                tgt = t["else"]
                for val, tg in zip(t["vals"], t["tgts"]):
                    if val == iv:
                        tgt = tg
                decided.append((b, iv))
                st.append(tgt)
                continue
        if t["k"] == "assert":
            # overflow / bounds assertions: follow the success edge only
            st.append(t["t"])
            continue
        for s in term_succs(t):
            st.append(s)
    return seen, decided


def cfg_consts_branched_on(fn):
    """names of configuration constants (assoc consts / const params) that reach a SwitchInt"""
    names = set()
    dep = None
    for b in fn.bbs:
        t = b["t"]
        if t["k"] != "switch":
            continue
        o = t["o"]
        if "k" in o:
            n = const_key(o["k"])
            if n:
                names.add(n)
            continue
        if dep is None:
            dep = Dep(fn)
        l = op_local(o)
        for k in dep.consts_in_slice([l]):
            n = const_key(k)
            if n:
                names.add(n)
    return names


def control_deps(fn):
    """bb -> set of (branch_bb, succ) pairs it is control dependent on (Ferrante et al. via post-dominators)"""
    pd = fn.pdom()
    n = len(fn.bbs)
    out = defaultdict(set)
    succ = fn.succ()
    for a in range(n):
        if len(succ[a]) < 2:
            continue
        for s in succ[a]:
            # walk from s up the post-dominator tree until ipdom(a)
            stop = pd[a]
            x = s
            guard = 0
            while x is not None and x != stop and x != n and guard < n + 2:
                out[x].add((a, s))
                x = pd[x]
                guard += 1
    return out


def direct_const(fn, operand, depth=8):
    """Follow an operand through single-definition copies / borrows / casts to the constant it names
    (no flow through fields or calls).  Returns the constant dict or None."""
    defs = fn.defs()
    o = operand
    for _ in range(depth):
        if "k" in o:
            return o["k"]
        p = op_place(o)
        l, projs = place_parts(p)
        if projs and projs != ["*"]:
            return None
        ds = [d for d in defs.get(l, []) if d[2] == "assign"]
        if len(ds) != 1 or len(defs.get(l, [])) != 1:
            return None
        r = ds[0][3]["r"]
        if r["k"] in ("use", "cast"):
            o = r["o"]
        elif r["k"] == "ref":
            pl, pp = place_parts(r["p"])
            if pp and pp != ["*"]:
                return None
            o = {"c": pl}
        else:
            return None
    return None


# ---- expression reconstruction -------------------------------------------------------------------
# Rebuilds, for a straight-line single-definition value, the expression tree that produced it.  Wrappers
# that do not change the value (`?`, unwrap, borrow, clone, into ...) are looked through.  A local with
# several definitions (loop-carried or branch-merged) becomes ('phi', local).

TRANSPARENT = {"branch", "unwrap", "expect", "clone", "deref", "deref_mut", "borrow", "borrow_mut", "as_ref", "as_mut",
               "into", "into_iter", "to_owned", "unwrap_unchecked", "copied", "cloned"}


def _fields(projs):
    return tuple(x[2] for x in projs if isinstance(x, (list, tuple)) and x[0] == "f")


def _sel(fn, projs, depth, transparent, mut_as_phi=False):
    """projection list -> selectors: field names (str) and ('idx', term) / ('cidx', n, from_end) entries"""
    out = []
    for x in projs:
        if not isinstance(x, (list, tuple)):
            continue
        if x[0] == "f":
            out.append(x[2])
        elif x[0] == "i":
            out.append(("idx", expr(fn, {"c": x[1]}, depth - 1, transparent)))
        elif x[0] == "ci":
            out.append(("cidx", x[1], bool(x[2])))
        elif x[0] == "sub":
            out.append(("sub", x[1], x[2], bool(x[3])))
    return tuple(out)


def expr(fn, o, depth=14, transparent=TRANSPARENT, mut_as_phi=False):
    """operand -> term:
         ('const', name|value) | ('arg', n, sel) | ('call', name, (terms...), sel, path) |
         ('bin', op, a, b) | ('un', op, a) | ('agg', what, (terms...), fieldnames) | ('phi', local, sel) |
         ('iter', start, end) (the variable of `for _ in start..end`) | ('rv', kind) | ('deep',)
       sel = tuple of selectors applied to the value: field names and ('idx', term) entries."""
    if depth <= 0:
        return ("deep",)
    if "k" in o:
        k = o["k"]
        if "v" in k:
            return ("const", k["v"])
        if "str" in k:
            return ("const", '"%s"' % k["str"])
        if k.get("promoted") is not None:
            named = [d for d in (k.get("pdefs") or []) if not d.startswith(("variant:", "lit:"))]
            lits = [d for d in (k.get("pdefs") or []) if d.startswith("lit:")]
            if len(named) == 1 and not lits:
                return ("const", named[0].rsplit("::", 1)[-1])
            if not named and len(lits) == 1:
                try:
                    return ("const", int(lits[0][4:]))
                except ValueError:
                    pass
            return ("const", "promoted{%s}" % ",".join(sorted(d.rsplit("::", 1)[-1] for d in named + lits)))
        nm = k.get("def") or k.get("static") or k.get("param") or (k.get("pdefs") or ["?"])[0]
        return ("const", nm.rsplit("::", 1)[-1] if isinstance(nm, str) else nm)
    p = op_place(o)
    l, projs = place_parts(p)
    fields = _sel(fn, projs, depth, transparent, mut_as_phi)
    defs = fn.defs()
    ds = defs.get(l, [])
    if not ds:
        if 1 <= l <= fn.d["argc"]:
            return ("arg", l, fields)
        return ("phi", l, fields)
    if len(ds) != 1:
        return ("phi", l, fields)
    if 1 <= l <= fn.d["argc"]:
        # a parameter that is assigned to has two definitions: the caller's value and the assignment
        return ("phi", l, fields)
    if mut_as_phi and l in mut_borrowed(fn):
        return ("phi", l, fields)
    return _from_def(fn, ds[0], fields, depth, transparent, mut_as_phi)


def phi_alts(fn, term, depth=14, transparent=TRANSPARENT):
    """('phi', l, sel) -> the value of each whole-local definition of l with sel applied (None when some definition
    writes only a part of l, or l has no definition); any other term -> [term]"""
    if not (isinstance(term, tuple) and term and term[0] == "phi"):
        return [term]
    ds = fn.defs().get(term[1], [])
    if not ds:
        return None
    out = []
    for d in ds:
        if d[2] == "setdiscr":
            return None
        dest = d[3]["d"]
        if place_parts(dest)[1]:
            return None
        out.append(_from_def(fn, d, term[2], depth, transparent, False))
    return out


def _from_def(fn, d, fields, depth, transparent, mut_as_phi):
    def with_fields(t, fs):
        if not fs:
            return t
        if t[0] == "arg":
            return ("arg", t[1], t[2] + fs)
        if t[0] == "phi":
            return ("phi", t[1], t[2] + fs)
        if t[0] == "agg" and t[3] and isinstance(fs[0], str) and fs[0] in t[3]:
            return with_fields(t[2][t[3].index(fs[0])], fs[1:])
        if t[0] == "call":
            return ("call", t[1], t[2], t[3] + fs, t[4])
        if t[0] == "proj":
            return ("proj", t[1], t[2] + fs)
        return ("proj", t, fs)

    if d[2] == "call":
        t = d[3]
        name = t["f"].get("name")
        if name in transparent and t["args"]:
            inner = expr(fn, t["args"][0], depth - 1, transparent, mut_as_phi)
            # `?` / unwrap payload projections (.0 of Continue / Some) are not field selections of the inner value
            fs = fields
            if name in ("branch", "unwrap", "expect") and fs[:1] == ("0",):
                fs = fs[1:]
            return with_fields(inner, fs)
        if name == "next" and len(t["args"]) == 1 and fields[:1] == ("0",):
            it = expr(fn, t["args"][0], depth - 1, transparent, mut_as_phi)
            if it[0] == "agg" and it[1] in ("Range", "RangeInclusive") and len(it[2]) >= 2:
                return with_fields(("iter", it[2][0], it[2][1]) if it[1] == "Range" else ("iter=", it[2][0], it[2][1]), fields[1:])
        return ("call", name, tuple(expr(fn, a, depth - 1, transparent, mut_as_phi) for a in t["args"]), fields, t["f"].get("path") or "")
    if d[2] != "assign":
        return ("rv", d[2])
    r = d[3]["r"]
    k = r["k"]
    if k in ("use", "cast"):
        return with_fields(expr(fn, r["o"], depth - 1, transparent, mut_as_phi), fields)
    if k == "ref" or k == "addr":
        return with_fields(expr(fn, {"c": r["p"]}, depth - 1, transparent, mut_as_phi), fields)
    if k == "bin":
        return with_fields(("bin", r["op"], expr(fn, r["a"], depth - 1, transparent, mut_as_phi), expr(fn, r["b"], depth - 1, transparent, mut_as_phi)), fields)
    if k == "un":
        return ("un", r.get("op"), expr(fn, r["o"], depth - 1, transparent, mut_as_phi))
    if k == "agg":
        what = r.get("variant") or r.get("adt") or r.get("ak")
        t = ("agg", what, tuple(expr(fn, a, depth - 1, transparent, mut_as_phi) for a in r.get("ops", [])), tuple(r.get("fields") or [str(i) for i in range(len(r.get("ops", [])))]))
        return with_fields(t, fields)
    return ("rv", k)


def _showsel(fs):
    out = ""
    for f in fs:
        if isinstance(f, str):
            out += "." + f
        elif f[0] == "idx":
            out += "[%s]" % show(f[1])
        elif f[0] == "cidx":
            out += "[%s%d]" % ("-" if f[2] else "", f[1])
        else:
            out += "[%s]" % (f,)
    return out


def show(t):
    """compact printable form of an expression term"""
    if not isinstance(t, tuple):
        return str(t)
    h = t[0]
    if h == "const":
        return str(t[1])
    if h == "arg":
        return "arg%d%s" % (t[1], _showsel(t[2]))
    if h == "phi":
        return "phi%d%s" % (t[1], _showsel(t[2]))
    if h == "call":
        return "%s(%s)%s" % (t[1], ", ".join(show(a) for a in t[2]), _showsel(t[3]))
    if h == "bin":
        return "(%s %s %s)" % (show(t[2]), t[1], show(t[3]))
    if h == "un":
        return "%s(%s)" % (t[1], show(t[2]))
    if h == "agg":
        return "%s{%s}" % (t[1], ", ".join(show(a) for a in t[2]))
    if h == "proj":
        return "%s%s" % (show(t[1]), _showsel(t[2]))
    if h in ("iter", "iter="):
        return "i<%s..%s%s>" % (show(t[1]), "=" if h == "iter=" else "", show(t[2]))
    return h


def sccs(fn):
    """non-trivial strongly connected components of the CFG (loops), as a list of block sets (Kosaraju, iterative)"""
    succ = fn.succ()
    n = len(succ)
    pred = [[] for _ in range(n)]
    for a in range(n):
        for b in succ[a]:
            pred[b].append(a)
    seen, order = [False] * n, []
    for r in range(n):
        if seen[r]:
            continue
        st = [(r, iter(succ[r]))]
        seen[r] = True
        while st:
            x, it = st[-1]
            adv = False
            for y in it:
                if not seen[y]:
                    seen[y] = True
                    st.append((y, iter(succ[y])))
                    adv = True
                    break
            if not adv:
                order.append(x)
                st.pop()
    comp = [None] * n
    out = []
    for r in reversed(order):
        if comp[r] is not None:
            continue
        cur, st = set(), [r]
        comp[r] = r
        while st:
            x = st.pop()
            cur.add(x)
            for y in pred[x]:
                if comp[y] is None:
                    comp[y] = r
                    st.append(y)
        if len(cur) > 1 or any(x in succ[x] for x in cur):
            out.append(cur)
    return out


def mut_borrowed(fn):
    """locals whose own storage is mutably borrowed somewhere (`&mut local`): their value can change without an
    assignment to the local, so a single assignment is not their only definition"""
    c = getattr(fn, "_mutb", None)
    if c is None:
        c = set()
        for bi, si, s in fn.stmts():
            r = s.get("r")
            if r and r["k"] in ("ref", "raw", "addr") and r.get("mut"):
                l, projs = place_parts(r["p"])
                if not projs or all(isinstance(p, (list, tuple)) and p[0] == "f" for p in projs):
                    c.add(l)
        try:
            fn._mutb = c
        except Exception:
            pass
    return c


# ---- one-level inlining support for expression rules -------------------------------------------------------

def local_callees(facts, fn, exclude=()):
    """(bb, call terminator, callee Fn) for calls of fn that resolve to a non-closure function of the same crate whose
    MIR is available: helper functions a maintainer may extract from (or inline into) an anchored function"""
    out = []
    for bb, t in fn.calls():
        f = t["f"]
        if f.get("name") in exclude:
            continue
        cand = None
        for key in (f.get("res"), f.get("path")):
            if key:
                c = facts.get(key, fn.unit)
                if c is not None and c.kind != "Closure" and c.crate == fn.crate and c.id != fn.id:
                    cand = c
                    break
        if cand is not None and cand.d["argc"] == len(t["args"]):
            out.append((bb, t, cand))
    return out


def subst_args(term, amap):
    """replace ('arg', j, sel) leaves of a callee-side term by the caller-side terms amap[j] (selectors appended)"""
    if not isinstance(term, tuple) or not term:
        return term
    if term[0] == "arg" and term[1] in amap:
        base = amap[term[1]]
        sel = term[2] if len(term) > 2 else ()
        if not sel:
            return base
        if isinstance(base, tuple) and base and base[0] in ("arg", "phi"):
            return (base[0], base[1], base[2] + sel)
        if isinstance(base, tuple) and base and base[0] == "call":
            return base[:3] + ((base[3] if len(base) > 3 else ()) + sel,) + tuple(base[4:])
        return ("proj", base, sel)
    return tuple(subst_args(x, amap) for x in term)


# ---- captured variables of closures, expressed in the enclosing function's terms --------------------------------

def lift_captures(facts, clo, term, depth=40):
    """Rewrite a term of closure `clo` so that it no longer mentions the closure environment: captured variables
    (('arg', 1, (k, ...)) leaves) become the creating function's expression for capture k; the closure's own
    parameters become ('cparam', level, n, sel) with level = nesting depth of the closure (1 = outermost).
    Applied recursively up to the top-level function.  Returns the term unchanged for a non-closure."""
    import re as _re
    if clo.kind != "Closure":
        return term
    level = clo.id.count("::{closure#")
    parent_id = _re.sub(r"::\{closure#\d+\}$", "", clo.id)
    parent = facts.get(parent_id, clo.unit)
    ops = None
    if parent is not None:
        for bi, si, s in parent.stmts():
            r = s.get("r")
            if r and r.get("k") == "agg" and r.get("closure") == clo.id:
                ops = [expr(parent, o, depth) for o in r["ops"]]

    def sub(x):
        if not isinstance(x, tuple) or not x:
            return x
        if x[0] == "arg" and isinstance(x[1], int):
            sel = x[2] if len(x) > 2 else ()
            if x[1] >= 2:
                return ("cparam", level, x[1], sel)
            if x[1] == 1 and ops is not None and sel and isinstance(sel[0], str) and sel[0].isdigit() and int(sel[0]) < len(ops):
                base = ops[int(sel[0])]
                rest = tuple(sub(y) for y in sel[1:])
                if not rest:
                    return base
                if isinstance(base, tuple) and base and base[0] in ("arg", "phi"):
                    return (base[0], base[1], base[2] + rest)
                if isinstance(base, tuple) and base and base[0] == "call":
                    return ("call", base[1], base[2], base[3] + rest, base[4])
                return ("proj", base, rest)
        return tuple(sub(y) for y in x)
    out = sub(term)
    if parent is not None and parent.kind == "Closure":
        return lift_captures(facts, parent, out, depth)
    return out
