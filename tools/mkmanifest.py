#!/usr/bin/env python3
"""Regenerate /verif/MANIFEST.json from the claim table below (single source of truth for what is claimed)."""
import json, os, sys
VERIF = os.path.dirname(os.path.dirname(os.path.abspath(__file__)))
sys.path.insert(0, VERIF)
from tools.claims import CLAIMS, NOT_APPLICABLE

props = [json.loads(l) for l in open(os.path.join(VERIF, "properties.jsonl"))]
ids = [p["id"] for p in props]
checks = []
for pid in ids:
    if pid not in CLAIMS:
        continue
    c = CLAIMS[pid]
    checks.append({
        "property_id": pid,
        "quick_cmd": "python3 /verif/check.py %s --tier quick" % pid,
        "thorough_cmd": "python3 /verif/check.py %s --tier thorough" % pid,
        "evidence_file": "/verif/evidence/%s.json" % pid,
        "replay_cmd_template": "cat {path}",
        "engine": "arkfacts+rules",
        "level_claimed": {"category": c.get("category", "other"), "text": c["text"], "design_ref": "DESIGN.md section 4, %s" % pid},
        "level_note": c["note"],
        "technique": c["technique"],
    })
na = [{"property_id": pid, "reason": NOT_APPLICABLE.get(pid, "check under construction (DESIGN.md section 4); not claimed yet")} for pid in ids if pid not in CLAIMS]
m = {
    "version": 1,
    "setup_cmd": "cd /verif/arkfacts && CARGO_NET_OFFLINE=true cargo build --release --offline && cd /verif && python3 -m arklib.extract",
    "hooks": {"guard": "arkworks_rs_algebra_verif", "enable": "no hooks: the checks read the compiler's IR (MIR, evaluated constants) of the unmodified sources through a rustc_private driver", "baseline_off_cmd": "cd /repo && cargo test --workspace --no-fail-fast --offline", "source_commits": [], "add_only": True},
    "engines": [
        {"name": "arkfacts", "path": "/verif/arkfacts", "serves_properties": sorted(CLAIMS), "kind_free_text": "rustc_private driver (nightly) injected with RUSTC_WORKSPACE_WRAPPER under cargo check: dumps MIR with resolved callees, impl tables and the const-evaluated constant table of every workspace crate (two feature configs), every crate under curves/ (generated shadow workspace) and /verif/witness/shapes"},
        {"name": "rules", "path": "/verif/rules", "serves_properties": sorted(CLAIMS), "kind_free_text": "Python analyses over the facts: CFG/dominators/control dependence, dependence slices, configuration-arm splitting, truth-table path enumeration, sibling comparison, constant-table consistency"},
    ],
    "checks": checks,
    "not_applicable": na,
    "notes": "Technique family: static analysis. Every check re-extracts facts from /repo's working tree (content-hash cache under /verif/.facts). Known findings: /verif/known_findings.json.",
}
json.dump(m, open(os.path.join(VERIF, "MANIFEST.json"), "w"), indent=1)
print("claimed:", [c["property_id"] for c in checks], "n/a:", len(na))
