"""C01 R-FROMINT.divisor -- `From<u8 .. u128> for Fp<P, N>` reduce their argument modulo p, not modulo something else.

The conversions are `x % (modulus as an integer of the argument's width)` followed by a limb split.  What can be decided
without interpreting `%`: the DIVISOR.  The body is evaluated with the argument the symbol x, the modulus limbs the
symbols m0, m1, .. (general position: no limb is zero), N concrete; `a % b` records (a, b) and yields a fresh symbol,
`v << k` is v * 2^k, `hi | lo` with hi a multiple of 2^64 and lo a zero-extended word is hi + lo.  Then

  N = 1, 2   a remainder of x is taken, and every divisor applied to (a value derived from) x equals sum_i m_i 2^(64 i)
  N >= 3     (p >= 2^128 > x in general position) no remainder is needed; a divisor that is not the full modulus is wrong

independent of how the modulus is put together (inline, a helper, a fold over the limbs).  Supplementary: no verdict
when the body cannot be followed; a missing anchor fails closed."""
from arklib import symex as SX
from arklib.poly import Q
from rules import c07_dft, c08_arith

W = 1 << 64
FP = "ark_ff::fields::models::fp::Fp"


class ModEngine(SX.Engine):
    def __init__(self, *a, **kw):
        super().__init__(*a, **kw)
        self.rems = []

    def rvalue(self, fr, r, st):
        if r["k"] == "bin":
            a, b = self.operand(fr, r["a"]), self.operand(fr, r["b"])
            op = r["op"].replace("Unchecked", "")
            qa = SX.q_of(a) if not isinstance(a, bool) else None
            qb = SX.q_of(b) if not isinstance(b, bool) else None
            both_int = isinstance(a, int) and isinstance(b, int)
            if qa is not None and qb is not None and not both_int:
                if op == "Rem":
                    self.rems.append((qa, qb))
                    return Q.var("rem#%d" % len(self.rems))
                if op == "Shl" and isinstance(b, int):
                    return qa * Q.const(1 << b)
                if op == "Shr" and isinstance(b, int):
                    return Q.var("shr#%d_%d" % (id(r) % 100000, b))
                if op == "BitOr":
                    hi, lo = (qa, qb)
                    if not self._multiple_of_w(hi):
                        hi, lo = lo, hi
                    if self._multiple_of_w(hi):
                        return hi + lo
                    return SX.TOP
                if op == "Add":
                    return qa + qb
                if op in ("AddWithOverflow",):
                    return SX.Obj(adt="tuple", fields={0: qa + qb, 1: False})
                if op == "Mul":
                    return qa * qb
                if op in ("Eq", "Ne"):
                    c = SX.Cond("eq", qa, qb)
                    return c if op == "Eq" else c.negate()
        if r["k"] == "cast":
            v = self.operand(fr, r["o"])
            if isinstance(v, Q):
                return v
        return super().rvalue(fr, r, st)

    @staticmethod
    def _multiple_of_w(q):
        return q.is_poly() and all(c % W == 0 for c in q.n.t.values())      # zero included


def _first(md, H):
    def all_zero(kind):
        def h(ex, st, fr, t, a):
            # `.all(Zero::is_zero)` / `.any(..)` with the trait method itself as the predicate: limbs are in general position
            f = ex.deref(a[1]) if len(a) == 2 and isinstance(a[1], SX.Ref) else (a[1] if len(a) == 2 else None)
            if isinstance(f, SX.Obj) and f.adt == "fn" and str(f.variant or "").endswith("is_zero"):
                it = H["elems"](ex, a[0])
                if it is None:
                    return NotImplemented
                return (len(it) == 0) if kind == "all" else False
            return NotImplemented
        return h
    md.on(SX.by(None, "all"), all_zero("all"))
    md.on(SX.by(None, "any"), all_zero("any"))
    c08_arith._first(md, H)

    def then(ex, st, fr, t, a):
        if len(a) != 2 or not isinstance(ex.deref(a[0]), bool):
            return NotImplemented
        if not ex.deref(a[0]):
            return SX.none()
        r = H["call_value"](ex, st, a[1], [])
        return SX.some(r) if r is not SX.TOP else NotImplemented
    md.on(SX.by(None, "then"), then)

    def then_some(ex, st, fr, t, a):
        if len(a) != 2 or not isinstance(ex.deref(a[0]), bool):
            return NotImplemented
        return SX.some(a[1]) if ex.deref(a[0]) else SX.none()
    md.on(SX.by(None, "then_some"), then_some)

    def map_or(ex, st, fr, t, a):
        o = ex.deref(a[0]) if len(a) == 3 else None
        if isinstance(o, SX.Obj) and o.variant == "None":
            return a[1]
        if isinstance(o, SX.Obj) and o.variant == "Some":
            r = H["call_value"](ex, st, a[2], [o.fields[0]])
            return r if r is not SX.TOP else NotImplemented
        return NotImplemented
    md.on(SX.by(None, "map_or"), map_or)

    def opt_map(ex, st, fr, t, a):
        o = ex.deref(a[0]) if len(a) == 2 else None
        if isinstance(o, SX.Obj) and o.variant == "None" and o.adt != "pyiter":
            return SX.none()
        if isinstance(o, SX.Obj) and o.variant == "Some":
            r = H["call_value"](ex, st, a[1], [o.fields[0]])
            return SX.some(r) if r is not SX.TOP else NotImplemented
        return NotImplemented
    md.on(SX.by(None, "map"), opt_map)

    def unwrap_or(ex, st, fr, t, a):
        o = ex.deref(a[0]) if len(a) == 2 else None
        if isinstance(o, SX.Obj) and o.variant == "Some":
            return o.fields[0]
        if isinstance(o, SX.Obj) and o.variant == "None":
            return a[1]
        return NotImplemented
    md.on(SX.by(None, "unwrap_or"), unwrap_or)

    def widen(ex, st, fr, t, a):
        v = ex.deref(a[0]) if len(a) == 1 else None
        return v if isinstance(v, Q) else NotImplemented
    md.on(SX.by("core::convert::From", "from"), widen)
    md.on(SX.by("core::convert::Into", "into"), widen)


def check_fromint_divisor(res, facts):
    rule = res.rule("R-FROMINT.divisor", "From<u8..u128> for Fp: the argument is reduced modulo the integer sum_i MODULUS[i] * 2^(64 i), whatever way the divisor is assembled (N = 1, 2; no partial divisor for N = 3) [evaluation with symbolic limbs]", 0)
    fns = {}
    for f in facts.fns(unit="ws", crate="ark_ff"):
        if f.kind != "Closure" and f.name == "from" and f.trait_impl == "core::convert::From" and f.self_head == FP and f.local_ty(1) in ("u8", "u16", "u32", "u64", "u128"):
            fns[f.local_ty(1)] = f
    for ty in ("u8", "u16", "u32", "u64", "u128"):
        key = "ark_ff|Fp::from(%s)|divisor" % ty
        fn = fns.get(ty)
        if fn is None:
            rule.bad(key, "anchor missing")
            continue
        verdict = None
        for N in (1, 2, 3):
            limbs = [Q.var("m%d" % i) for i in range(N)]
            modv = SX.Obj(adt="ark_ff::biginteger::BigInt", fields={0: SX.Obj(adt="array", fields={i: limbs[i] for i in range(N)})})
            ex = ModEngine(facts, "ws", c07_dft._models(_first), env={"N": N, "MODULUS": modv}, max_paths=8, max_depth=6, inline_limit=200, max_visits=2000)
            try:
                paths = [p for p in ex.run(fn, [Q.var("x")]) if "panic" not in p.flags]
            except RecursionError:
                verdict = ("noverdict", "N = %d: recursion limit" % N)
                break
            # the tail (`BigInt -> Fp`) is outside this clause: only control flow up to the remainders matters
            hard = [f for p in paths for f in p.flags if f in ("cut", "top-branch", "closure-forks")]
            if len(paths) != 1 or hard:
                verdict = ("noverdict", "N = %d: not evaluable (%s)" % (N, sorted(set(f for p in paths for f in p.flags))[:4]))
                break
            full = Q.const(0)
            for i in range(N):
                full = full + limbs[i] * Q.const(W ** i)
            on_x = [(a, b) for a, b in ex.rems if "x" in a.vars() or any(v.startswith("rem#") for v in a.vars())]
            wrong = [(a, b) for a, b in on_x if not b.equals(full)]
            if wrong:
                verdict = ("bad", "N = %d: the argument is reduced modulo %s, but the modulus is %s (limb i weighs 2^(64 i))" % (N, wrong[0][1], full))
                break
            fits = (ty == "u128" and N <= 2) or (ty != "u128" and N == 1)
            if fits and not on_x:
                verdict = ("bad", "N = %d: a %s argument can exceed a %d-limb modulus, but no remainder is taken" % (N, ty, N))
                break
        if verdict is None:
            rule.ok(key, "N = 1, 2, 3: every divisor applied to the argument is the full modulus", fn.loc)
        elif verdict[0] == "bad":
            rule.bad(key, verdict[1], fn.loc)
        else:
            rule.noverdict(key, "shape not modelled (%s)" % verdict[1], fn.loc)
