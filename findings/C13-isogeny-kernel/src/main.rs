use ark_ec::hashing::curve_maps::wb::WBMap;
use ark_ec::hashing::map_to_curve_hasher::MapToCurve;
use ark_ec::short_weierstrass::Projective;
use ark_ec::AffineRepr;
use ark_test_curves::bls12_381::{g1::Config as G1, Fq};
use core::str::FromStr;
fn main() {
    let us = [
        "2996364799790106798135996267804732426571918304256045973420659328602593967274666773429484758551777178205846782232816",
        "1562001338336877267717400325455189014780228097985596277514975439801739125527323838522116502949589758528550231396418",
        "3140998864168905305116999238341094082253376923310959579796412851201896533814081908310962784672298826054629918684568",
        "2271327980655849924096472376460625801249900033784935309133299460372536622850473967367201051801213471874555086217960"
    ];
    // control: an ordinary u
    let p = <WBMap<G1> as MapToCurve<Projective<G1>>>::map_to_curve(Fq::from(7u64)).unwrap();
    println!("u = 7: on curve {}, identity {}", p.is_on_curve(), p.is_zero());
    for s in us {
        let u = Fq::from_str(s).unwrap();
        let p = <WBMap<G1> as MapToCurve<Projective<G1>>>::map_to_curve(u).unwrap();
        println!("u = {}...: image ({}, {}) on curve {}, identity {}", &s[..12], p.x, p.y, p.is_on_curve(), p.is_zero());
    }
}
