"""Sparse multivariate polynomials / rational functions over Z (own arithmetic, no dependencies)."""


class Poly:
    __slots__ = ("t",)

    def __init__(self, t=None):
        self.t = t or {}

    @staticmethod
    def const(c):
        return Poly({(): c}) if c else Poly()

    @staticmethod
    def var(name):
        return Poly({((name, 1),): 1})

    def is_zero(self):
        return not self.t

    def is_const(self):
        return all(m == () for m in self.t)

    def const_value(self):
        return self.t.get((), 0)

    def __add__(self, o):
        t = dict(self.t)
        for m, c in o.t.items():
            v = t.get(m, 0) + c
            if v:
                t[m] = v
            else:
                t.pop(m, None)
        return Poly(t)

    def __neg__(self):
        return Poly({m: -c for m, c in self.t.items()})

    def __sub__(self, o):
        return self + (-o)

    def __mul__(self, o):
        if len(self.t) > len(o.t):
            self, o = o, self
        t = {}
        for m1, c1 in self.t.items():
            for m2, c2 in o.t.items():
                m = _mmul(m1, m2)
                v = t.get(m, 0) + c1 * c2
                if v:
                    t[m] = v
                else:
                    t.pop(m, None)
        return Poly(t)

    def scale(self, k):
        return Poly({m: c * k for m, c in self.t.items()}) if k else Poly()

    def __eq__(self, o):
        return self.t == o.t

    def __hash__(self):
        return hash(frozenset(self.t.items()))

    def vars(self):
        return {v for m in self.t for v, _ in m}

    def subst(self, name, p):
        """substitute variable `name` by polynomial p"""
        out = Poly()
        for m, c in self.t.items():
            rest = tuple((v, e) for v, e in m if v != name)
            e = next((e for v, e in m if v == name), 0)
            term = Poly({rest: c})
            for _ in range(e):
                term = term * p
            out = out + term
        return out

    def __repr__(self):
        if not self.t:
            return "0"
        parts = []
        for m, c in sorted(self.t.items(), key=lambda kv: (len(kv[0]), kv[0])):
            mono = "*".join(v if e == 1 else "%s^%d" % (v, e) for v, e in m)
            if not mono:
                parts.append(str(c))
            elif c == 1:
                parts.append(mono)
            elif c == -1:
                parts.append("-" + mono)
            else:
                parts.append("%d*%s" % (c, mono))
        return " + ".join(parts).replace("+ -", "- ")


def _mmul(a, b):
    if not a:
        return b
    if not b:
        return a
    d = dict(a)
    for v, e in b:
        d[v] = d.get(v, 0) + e
    return tuple(sorted(d.items()))


class Q:
    """rational function num/den (den != 0 assumed where used)"""
    __slots__ = ("n", "d")

    def __init__(self, n, d=None):
        self.n = n
        self.d = d if d is not None else ONE

    @staticmethod
    def const(c):
        return Q(Poly.const(c))

    @staticmethod
    def var(name):
        return Q(Poly.var(name))

    def __add__(self, o):
        if self.d == o.d:
            return Q(self.n + o.n, self.d)
        return Q(self.n * o.d + o.n * self.d, self.d * o.d)

    def __sub__(self, o):
        return self + (-o)

    def __neg__(self):
        return Q(-self.n, self.d)

    def __mul__(self, o):
        return Q(self.n * o.n, self.d * o.d if not (self.d == ONE and o.d == ONE) else ONE)

    def inv(self):
        return Q(self.d, self.n)

    def __truediv__(self, o):
        return self * o.inv()

    def equals(self, o):
        return self.n * o.d == o.n * self.d

    def is_zero(self):
        return self.n.is_zero()

    def is_poly(self):
        return self.d == ONE

    def subst(self, name, p):
        return Q(self.n.subst(name, p), self.d.subst(name, p))

    def vars(self):
        return self.n.vars() | self.d.vars()

    def __repr__(self):
        if self.d == ONE:
            return repr(self.n)
        return "(%r)/(%r)" % (self.n, self.d)


ONE = Poly.const(1)
ZERO = Poly()
