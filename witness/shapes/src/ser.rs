//! Users of the serialization derive macros: named, tuple, nested-tuple and generic fields.
use ark_serialize::{CanonicalDeserialize, CanonicalSerialize};
use ark_std::vec::Vec;

#[derive(CanonicalSerialize, CanonicalDeserialize)]
pub struct Named {
    pub a: u64,
    pub b: Vec<u8>,
    pub c: Option<u16>,
}

#[derive(CanonicalSerialize, CanonicalDeserialize)]
pub struct Tuple(pub u32, pub [u8; 4], pub bool);

#[derive(CanonicalSerialize, CanonicalDeserialize)]
pub struct Nested {
    pub t: (u8, (u16, u32)),
    pub inner: Named,
    pub tail: Tuple,
}

#[derive(CanonicalSerialize, CanonicalDeserialize)]
pub struct Generic<T: CanonicalSerialize + CanonicalDeserialize> {
    pub x: T,
    pub y: Vec<T>,
}

#[derive(CanonicalSerialize, CanonicalDeserialize)]
pub struct Unit;
