"""C02 — extension towers implement arithmetic of F_p[X]/(X^k - beta): kernel identities.

R-POLY: each loop-free kernel of the two extension templates (QuadExtField, CubicExtField), the
non-residue hooks (default bodies and every override, in ark-ff, test-curves and all curve crates)
and the sparse multiplications used by the pairings is evaluated symbolically over a commutative
ring (arklib/symex.py) and compared with schoolbook arithmetic modulo the defining binomial,
written independently below.  All inputs, every base ring; configuration arms
(extension_degree == 2, NONRESIDUE == -1) are split.
R-FROB: frobenius_map_in_place multiplies exactly the non-constant coordinates by the table entry
indexed `power % DEGREE` (wiring; the table values are C16).
"""
from arklib import symex as SX
from arklib.poly import Q, Poly
from rules.kernels import Kernel, run_kernel, V, field_of, arg

QUAD = "ark_ff::fields::models::quadratic_extension::QuadExtField"
CUBIC = "ark_ff::fields::models::cubic_extension::CubicExtField"
BETA = V("const:NONRESIDUE")


def models(ext_degree=None):
    def extra(m):
        if ext_degree is not None:
            m.on(SX.by("ark_ff::fields::Field", "extension_degree"), lambda ex, st, fr, t, a: ext_degree)
    return SX.ring_models(extra)


def find(facts, unit, crate, name, self_head=None, trait=None, default_of=None, rhs_ref=None):
    out = []
    for fn in facts.fns(unit=unit, crate=crate):
        if fn.name != name or fn.kind == "Closure":
            continue
        if self_head and fn.self_head != self_head:
            continue
        if trait is not None and (fn.trait_impl or "") != trait:
            continue
        if trait is None and self_head and fn.trait_impl:
            continue
        if default_of and fn.default_of != default_of:
            continue
        if rhs_ref is not None:
            ta = (fn.impl or {}).get("trait_args") or []
            is_shared_ref = len(ta) >= 2 and ta[1].startswith("&") and " mut " not in ta[1].split("::")[0] and not ta[1].startswith("&mut")
            if len(ta) < 2 or is_shared_ref != rhs_ref:
                continue
        out.append(fn)
    return out


def quad_vals(ex, cellv):
    return [field_of(ex, cellv, 0, "c0"), field_of(ex, cellv, 1, "c1")]


def cubic_vals(ex, cellv):
    return [field_of(ex, cellv, 0, "c0"), field_of(ex, cellv, 1, "c1"), field_of(ex, cellv, 2, "c2")]


def self_after(vals):
    return lambda ex, p: vals(ex, p.args.cell(1).v) if p.args is not None else None


def ret_vals(vals):
    return lambda ex, p: vals(ex, p.ret)


def quad_mul(x, y, beta=BETA):
    return [x[0] * y[0] + beta * x[1] * y[1], x[0] * y[1] + x[1] * y[0]]


def cubic_mul(x, y, beta=BETA):
    return [x[0] * y[0] + beta * (x[1] * y[2] + x[2] * y[1]),
            x[0] * y[1] + x[1] * y[0] + beta * x[2] * y[2],
            x[0] * y[2] + x[1] * y[1] + x[2] * y[0]]


X2 = [V("x.c0"), V("x.c1")]
Y2 = [V("y.c0"), V("y.c1")]
X3 = [V("x.c0"), V("x.c1"), V("x.c2")]
Y3 = [V("y.c0"), V("y.c1"), V("y.c2")]
ONE, ZERO = Q.const(1), Q.const(0)


def check_generic(res, facts):
    rule = res.rule("R-POLY.templates", "kernels of QuadExtField / CubicExtField equal schoolbook arithmetic modulo X^k - beta (polynomial identity, all inputs)", 16)
    U, C = "ws", "ark_ff"

    def one(key, fns, argn, results, expect, md, **kw):
        if not fns:
            rule.bad(key, "kernel not found (anchor missing)")
            return
        for fn in fns[:1]:
            run_kernel(rule, facts, U, Kernel(key, fn, argn, results, lambda ex, p: expect, note=kw.pop("note", "")), md, **kw)
    # ---- quadratic
    for deg, label in ((2, "extension_degree=2 (sum_of_products arm)"), (4, "extension_degree!=2 (Karatsuba arm)")):
        one("Quad::mul_assign|" + label, find(facts, U, C, "mul_assign", QUAD, "core::ops::arith::MulAssign", rhs_ref=True), ["x", "y"],
            self_after(quad_vals), quad_mul(X2, Y2), models(deg))
    one("Quad::square_in_place", find(facts, U, C, "square_in_place", QUAD, "ark_ff::fields::Field"), ["x"], self_after(quad_vals), quad_mul(X2, X2), models(2), min_paths=2, note="(both NONRESIDUE == -1 and general arm)")
    one("Quad::norm", find(facts, U, C, "norm", QUAD), ["x"], lambda ex, p: [SX.q_of(p.ret)], [X2[0] * X2[0] - BETA * X2[1] * X2[1]], models(2))
    one("Quad::mul_assign_by_basefield", find(facts, U, C, "mul_assign_by_basefield", QUAD), ["x", "e"], self_after(quad_vals), [X2[0] * V("e"), X2[1] * V("e")], models(2))
    one("Quad::double_in_place", find(facts, U, C, "double_in_place", QUAD, "ark_ff::fields::AdditiveGroup"), ["x"], self_after(quad_vals), [X2[0] + X2[0], X2[1] + X2[1]], models(2))
    one("Quad::neg_in_place", find(facts, U, C, "neg_in_place", QUAD, "ark_ff::fields::AdditiveGroup"), ["x"], self_after(quad_vals), [-X2[0], -X2[1]], models(2))
    one("Quad::add_assign", find(facts, U, C, "add_assign", QUAD, "core::ops::arith::AddAssign", rhs_ref=True), ["x", "y"], self_after(quad_vals), [X2[0] + Y2[0], X2[1] + Y2[1]], models(2))
    one("Quad::sub_assign", find(facts, U, C, "sub_assign", QUAD, "core::ops::arith::SubAssign", rhs_ref=True), ["x", "y"], self_after(quad_vals), [X2[0] - Y2[0], X2[1] - Y2[1]], models(2))
    one("Quad::conjugate_in_place", find(facts, U, C, "conjugate_in_place", QUAD), ["x"], self_after(quad_vals), [X2[0], -X2[1]], models(2))
    # inverse: v * x == 1 at the Some site
    inv = find(facts, U, C, "inverse", QUAD, "ark_ff::fields::Field")
    if inv:
        def inv_results(ex, p):
            r = p.ret
            if isinstance(r, SX.Obj) and r.variant == "Some":
                v = quad_vals(ex, r.fields.get(0))
                if None in v:
                    return [None, None]
                prod = quad_mul(v, X2)
                return prod
            return None
        run_kernel(rule, facts, U, Kernel("Quad::inverse|Some(v): v*x = 1", inv[0], ["x"], inv_results, lambda ex, p: [ONE, ZERO]), models(2))
    else:
        rule.bad("Quad::inverse", "kernel not found")
    # ---- hooks (default bodies): contracts
    QC = "ark_ff::fields::models::quadratic_extension::QuadExtConfig"
    y, x = V("y"), V("x")
    hook = lambda nm: find(facts, U, C, nm, default_of=QC)
    after1 = lambda ex, p: [SX.q_of(ex.deref(p.args.cell(1).v))] if p.args is not None else None
    one("QuadExtConfig::mul_base_field_by_nonresidue_in_place(default)", hook("mul_base_field_by_nonresidue_in_place"), ["y"], after1, [BETA * y], models(2))
    one("QuadExtConfig::mul_base_field_by_nonresidue_and_add(default)", hook("mul_base_field_by_nonresidue_and_add"), ["y", "x"], after1, [x + BETA * y], models(2))
    one("QuadExtConfig::mul_base_field_by_nonresidue_plus_one_and_add(default)", hook("mul_base_field_by_nonresidue_plus_one_and_add"), ["y", "x"], after1, [x + BETA * y + y], models(2))
    one("QuadExtConfig::sub_and_mul_base_field_by_nonresidue(default)", hook("sub_and_mul_base_field_by_nonresidue"), ["y", "x"], after1, [x - BETA * y], models(2))
    # ---- cubic
    one("Cubic::mul_assign", find(facts, U, C, "mul_assign", CUBIC, "core::ops::arith::MulAssign", rhs_ref=True), ["x", "y"], self_after(cubic_vals), cubic_mul(X3, Y3), models(3))
    one("Cubic::square_in_place", find(facts, U, C, "square_in_place", CUBIC, "ark_ff::fields::Field"), ["x"], self_after(cubic_vals), cubic_mul(X3, X3), models(3))
    one("Cubic::mul_assign_by_base_field", find(facts, U, C, "mul_assign_by_base_field", CUBIC), ["x", "e"], self_after(cubic_vals), [X3[0] * V("e"), X3[1] * V("e"), X3[2] * V("e")], models(3))
    one("Cubic::double_in_place", find(facts, U, C, "double_in_place", CUBIC, "ark_ff::fields::AdditiveGroup"), ["x"], self_after(cubic_vals), [a + a for a in X3], models(3))
    one("Cubic::neg_in_place", find(facts, U, C, "neg_in_place", CUBIC, "ark_ff::fields::AdditiveGroup"), ["x"], self_after(cubic_vals), [-a for a in X3], models(3))
    one("Cubic::add_assign", find(facts, U, C, "add_assign", CUBIC, "core::ops::arith::AddAssign", rhs_ref=True), ["x", "y"], self_after(cubic_vals), [a + b for a, b in zip(X3, Y3)], models(3))
    one("Cubic::sub_assign", find(facts, U, C, "sub_assign", CUBIC, "core::ops::arith::SubAssign", rhs_ref=True), ["x", "y"], self_after(cubic_vals), [a - b for a, b in zip(X3, Y3)], models(3))
    inv = find(facts, U, C, "inverse", CUBIC, "ark_ff::fields::Field")
    if inv:
        def inv3(ex, p):
            r = p.ret
            if isinstance(r, SX.Obj) and r.variant == "Some":
                v = cubic_vals(ex, r.fields.get(0))
                if None in v:
                    return [None] * 3
                return cubic_mul(v, X3)
            return None
        run_kernel(rule, facts, U, Kernel("Cubic::inverse|Some(v): v*x = 1", inv[0], ["x"], inv3, lambda ex, p: [ONE, ZERO, ZERO]), models(3))
    else:
        rule.bad("Cubic::inverse", "kernel not found")
    CC = "ark_ff::fields::models::cubic_extension::CubicExtConfig"
    one("CubicExtConfig::mul_base_field_by_nonresidue_in_place(default)", find(facts, U, C, "mul_base_field_by_nonresidue_in_place", default_of=CC), ["y"], after1, [BETA * y], models(3))
    one("CubicExtConfig::mul_base_field_by_nonresidue(default)", find(facts, U, C, "mul_base_field_by_nonresidue", default_of=CC), ["y"], lambda ex, p: [SX.q_of(p.ret)], [BETA * y], models(3))


def check_cubic_norm(res, facts):
    """CubicExtField::norm is the c0 coordinate of x * x^q * x^(q^2) (two Frobenius maps, not a polynomial kernel).  What
    is decidable as an identity: any arm that returns WITHOUT the Frobenius product (a shortcut for special inputs) must
    return the value the definition gives there -- for an element of the base field (c1 = c2 = 0) that is c0^3, since the
    Frobenius maps fix it.  (c0^2, the quadratic formula, makes every base-field element look like a square to
    legendre().)  The general arm must reach two frobenius_map_in_place calls and a product."""
    from arklib import dataflow as DF
    rule = res.rule("R-NORM.cubic", "CubicExtField::norm: the general arm is the c0 coordinate of the product with two Frobenius images; a shortcut arm returns the value of the definition (c0^3 on the base field)", 1)
    fns = find(facts, "ws", "ark_ff", "norm", CUBIC)
    key = "Cubic::norm"
    if not fns:
        rule.bad(key, "kernel not found (anchor missing)")
        return
    fn = fns[0]
    ex = SX.Engine(facts, "ws", models(3), max_paths=60, inline_limit=60, max_depth=3)
    paths = ex.run(fn, [arg("x", fn.local_ty(1))])
    general, problems = 0, []
    for p in paths:
        if "panic" in p.flags:
            continue
        if any(f.startswith("unmodelled:frobenius") for f in p.flags):
            general += 1
            continue
        got = SX.q_of(p.ret)
        if got is None or p.flags & {"cut", "diverge", "top-branch"}:
            problems.append("a returning path is not evaluable (%s)" % sorted(p.flags)[:3])
            continue
        zero_c = {v for v, val in p.st.subst.items() if v in ("x.c1", "x.c2") and hasattr(val, "is_zero") and val.is_zero()}
        if zero_c == {"x.c1", "x.c2"}:
            want = X3[0] * X3[0] * X3[0]
            if not got.equals(want):
                problems.append("on the arm c1 = c2 = 0 the code returns %s, but N(c0) = c0 * c0^q * c0^(q^2) = c0^3 for an element of the base field" % got)
        else:
            problems.append("an arm returns %s without forming the Frobenius product (assumptions %s)" % (got, [str(c) for c in p.assume][:4]))
    names = [t["f"].get("name") for _, t in fn.calls()]
    if names.count("frobenius_map_in_place") + names.count("frobenius_map") < 2 or not ({"mul", "mul_assign"} & set(names)):
        problems.append("the general arm does not form x * frob(x, 1) * frob(x, 2) (calls %s)" % sorted(set(n for n in names if n))[:8])
    if problems:
        rule.bad(key, "; ".join(problems), fn.loc)
    elif not general:
        rule.undecided(key, "no general path found", fn.loc)
    else:
        rule.ok(key, "%d general path(s) through the Frobenius product; no shortcut arm, or shortcut arms equal c0^3" % general, fn.loc)


def check_cycexp(res, facts, semantic=False):
    """cyclotomic exponentiation: signed (NAF) digits are produced only when INVERSE_IS_FAST, the only configuration in
    which the shared loop honours a negative digit (multiplies by the inverse); with INVERSE_IS_FAST = false the loop
    ignores negative digits, so it must be fed plain bits."""
    from arklib import dataflow as DF
    rule = res.rule("R-CYCEXP", "cyclotomic_exp: NAF recoding only under INVERSE_IS_FAST; exp_loop multiplies by f on +1, by f^-1 on -1 exactly when INVERSE_IS_FAST (the loop clause gives no verdict on shapes it does not model)", 1)
    _bad = rule.bad

    def shape_bad(key_, msg, loc=""):
        # R-CYCEXP.value evaluated the routine for every exponent of its range in both configurations: a body that does not
        # match the template below is then decided by that evaluation, not by its shape
        if semantic:
            rule.ok(key_, "template not matched (%s); the value f^e is decided by evaluation under R-CYCEXP.value" % msg[:100], loc)
        else:
            _bad(key_, msg, loc)
    rule.bad = shape_bad
    fns = {}
    for f in facts.fns(unit="ws", crate="ark_ff"):
        if f.kind != "Closure" and "fields::cyclotomic" in f.id and f.name in ("cyclotomic_exp_in_place", "exp_loop"):
            fns[f.name] = f
    f = fns.get("cyclotomic_exp_in_place")
    key = "ark_ff|CyclotomicMultSubgroup::cyclotomic_exp_in_place"
    if f is None:
        rule.bad(key, "anchor missing")
    else:
        naf_bbs = {bb for bb, t in f.calls() if t["f"].get("name") in ("find_naf", "find_relaxed_naf", "find_wnaf")}
        bits_bbs = {bb for bb, t in f.calls() if "BitIterator" in (t["f"].get("path") or "")}
        slow, _ = DF.reach_under(f, {"INVERSE_IS_FAST": False})
        fast, _ = DF.reach_under(f, {"INVERSE_IS_FAST": True})
        problems = []
        if naf_bbs & slow:
            problems.append("signed-digit (NAF) recoding is reachable with INVERSE_IS_FAST = false, where exp_loop silently drops every -1 digit: the wrong power is computed (e.g. x^4 for exponent 3) on towers without a fast inverse (Fp3, Fp6_3over2)")
        if not (bits_bbs & slow):
            problems.append("no plain-bit iteration on the INVERSE_IS_FAST = false arm")
        if not (naf_bbs & fast):
            problems.append("NAF recoding missing on the fast arm")
        (rule.bad if problems else rule.ok)(key, "; ".join(problems) if problems else "NAF digits only when INVERSE_IS_FAST, plain bits otherwise", f.loc)
    f = fns.get("exp_loop")
    key = "ark_ff|cyclotomic::exp_loop"
    if f is None:
        rule.bad(key, "anchor missing")
    else:
        from rules.c07 import E, show, A
        EM = lambda o: DF.expr(f, o, depth=30, mut_as_phi=True)
        muls = [(bb, DF.show(EM(t["args"][1]))) for bb, t in f.calls() if t["f"].get("name") == "mul_assign"]
        fast, _ = DF.reach_under(f, {"INVERSE_IS_FAST": True})
        slow, _ = DF.reach_under(f, {"INVERSE_IS_FAST": False})
        base = [bb for bb, e in muls if e in ("arg1",)]
        inv = [bb for bb, e in muls if "cyclotomic_inverse" in e or e.startswith("phi")]
        problems = []
        unrec = []
        if not muls:
            # the per-digit step lives elsewhere (a helper / a fold closure): this clause gives no verdict on that shape;
            # the recoding clause above and the tower formulas (R-POLY) are unaffected
            unrec.append("the per-digit multiplications are not in the loop function itself")
        elif len(muls) != 2 or len(base) != 1:
            problems.append("expected res *= f on positive digits and res *= f^-1 on negative digits (found %s)" % [e for _, e in muls])
        else:
            other = [bb for bb, e in muls if bb not in base]
            if not (set(other) <= fast) or (set(other) & slow):
                problems.append("the inverse multiplication is not confined to INVERSE_IS_FAST")
            if not (set(base) <= fast and set(base) <= slow):
                problems.append("the multiplication by the base is configuration dependent")
        if not any(t["f"].get("name") == "cyclotomic_square_in_place" for _, t in f.calls()) and not unrec:
            problems.append("no squaring between digits")
        # the accumulator starts at one (x^0): locally, or through a parameter that every caller sets to one()
        from rules.c07 import norm
        sq = [t for _, t in f.calls() if t["f"].get("name") == "cyclotomic_square_in_place"]
        if sq:
            init = norm(DF.expr(f, sq[0]["args"][0], depth=30))
            if init == 1:
                pass
            elif isinstance(init, tuple) and init[0] == "arg" and not init[2]:
                k = init[1]
                host = fns.get("cyclotomic_exp_in_place")
                sites = [t for _, t in host.calls() if t["f"].get("name") == "exp_loop"] if host is not None else []
                vals = [norm(DF.expr(host, t["args"][k - 1], depth=30)) for t in sites if len(t["args"]) >= k]
                if not sites or any(v != 1 for v in vals):
                    problems.append("the accumulator does not start at one on every call (call sites pass %s): for an exponent without set digits (zero) the result is not x^0 = 1" % [show(v)[:40] for v in vals])
            else:
                problems.append("the accumulator starts at %s instead of one" % show(init)[:60])
        host = fns.get("cyclotomic_exp_in_place")
        if host is not None:
            drops = sorted({t["f"].get("name") for _, t in host.calls() if t["f"].get("name") in ("next", "skip", "take", "step_by", "nth") and not t.get("mac")})
            if drops:
                problems.append("cyclotomic_exp_in_place consumes digits itself (%s) before handing the stream to the loop" % drops)
        if problems:
            rule.bad(key, "; ".join(problems), f.loc)
        elif unrec:
            rule.noverdict(key, "shape not modelled (%s)" % "; ".join(unrec), f.loc)
        else:
            rule.ok(key, "square between digits; +1: res *= f; -1: res *= f^-1 under INVERSE_IS_FAST only", f.loc)


def run(ctx, res):
    facts = ctx.facts(["ws", "curves"])
    res.analysed = facts.stats()
    check_generic(res, facts)
    from rules import c02_towers
    c02_towers.check(res, facts)
    semantic = check_cycexp_value(res, facts, ctx.tier)
    check_cycexp(res, facts, semantic)
    check_cubic_norm(res, facts)
    check_temp_in_place(res, facts, ctx.facts(["shapes"]))
    from rules import lincomb
    lincomb.check_field_ops(res, facts, ("QuadExtField<", "CubicExtField<"), 56)
    return {
        "level": "proof",
        "explanation": "Each obligation is a polynomial (or rational-function) identity over Z in the kernel's input symbols: the MIR of the kernel is evaluated symbolically path by path (configuration arms split, data branches forked with their assumption) and the result compared with schoolbook arithmetic modulo X^k - beta written independently; equality is decided by expansion to normal form. Holds for all inputs over every commutative ring, hence for every shipped base field. Frobenius = x^(p^k) as a value statement, cyclotomic fast paths vs generic ones on the cyclotomic subgroup, legendre/sqrt are NOT decided here.",
        "assumptions": ["the base ring operations are a commutative ring (C01 for prime fields, induction up the tower)", "sum_of_products(a, b) = sum a_i b_i (its Montgomery implementation is C01's subject)"],
        "trusted_base": ["rustc MIR construction and trait resolution", "arklib/symex.py path evaluation and arklib/poly.py normal forms", "the schoolbook formulas in rules/c02.py / rules/c02_towers.py"],
    }


def check_cycexp_value(res, facts, tier):
    """cyclotomic_exp_in_place(f, e) = f^e, decided in the exponent domain: f is a ring symbol, the exponent limbs are concrete,
    so the recoding (find_naf / BitIteratorBE), the digit loop, the squarings and the multiplications by f / f^-1 unroll along the
    MIR and the result is a monomial f^k (a quotient f^a / f^b on the signed-digit path); it must equal f^e -- for every exponent
    of the range, in both configurations (INVERSE_IS_FAST true: signed digits; false: plain bits), including zero exponents in
    every encoding ([], [0], [0, 0]) and multi-limb ones.  Independent of how the loop is organised."""
    from arklib.poly import Poly
    from rules import c07_dft, c08_arith
    rule = res.rule("R-CYCEXP.value", "cyclotomic_exp_in_place(f, e) = f^e for all e <= 64 (thorough 300), zero in every encoding and multi-limb exponents, with and without fast inverse [evaluation in the exponent domain]", 0)
    fns = [f for f in facts.fns(unit="ws", crate="ark_ff") if f.name == "cyclotomic_exp_in_place" and f.kind != "Closure" and f.default_of]
    if not fns:
        rule.bad("ark_ff|cyclotomic_exp_in_place|value", "anchor missing")
        return False
    fn = fns[0]
    top = 300 if tier == "thorough" else 64
    exps = [[]] + [[k] for k in range(0, top + 1)] + [[0, 0], [0, 1], [5, 3], [(1 << 63) + 1], [(1 << 64) - 1], [(1 << 64) - 1, (1 << 64) - 1], [1, 0, 0]]
    decided = []
    for fast in (True, False):
        key = "ark_ff|cyclotomic_exp_in_place|INVERSE_IS_FAST=%s" % str(fast).lower()
        verdict = None
        for limbs in exps:
            e = sum(v << (64 * i) for i, v in enumerate(limbs))
            ex = SX.Engine(facts, "ws", c07_dft._models(c08_arith._first), env={"INVERSE_IS_FAST": fast}, max_paths=4, max_depth=8, inline_limit=600, max_visits=200000)
            ex.strict_flow = True
            cell = SX.Cell(Q.var("f"))
            arg = SX.Ref(SX.Cell(SX.Obj(adt="array", fields={i: v for i, v in enumerate(limbs)})))
            try:
                paths = [p for p in ex.run(fn, [SX.Ref(cell), arg]) if "panic" not in p.flags]
            except RecursionError:
                verdict = ("noverdict", "recursion limit")
                break
            if len(paths) != 1 or paths[0].flags:
                verdict = ("noverdict", "e = %s: not evaluable (%s)" % (limbs, sorted(paths[0].flags)[:4] if paths else "no path"))
                break
            got = SX.q_of(cell.v)
            if got is None:
                verdict = ("noverdict", "e = %s: result is not a ring value" % limbs)
                break
            want = Q(Poly({(("f", e),): 1})) if e else Q.const(1)
            if not got.equals(want):
                verdict = ("bad", "exponent %s (limbs %s): the result is %s, not f^%d" % (e, limbs, str(got)[:80], e))
                break
        if verdict is None:
            rule.ok(key, "%d exponents: result = f^e" % len(exps), fn.loc)
            decided.append(True)
        elif verdict[0] == "bad":
            rule.bad(key, verdict[1], fn.loc)
            decided.append(True)
        else:
            rule.noverdict(key, "shape not modelled (%s)" % verdict[1], fn.loc)
            decided.append(False)
    return len(decided) == 2 and all(decided)


# ---- R-TEMPINPLACE ----------------------------------------------------------------------------------------------------

def _local_uses(fn):
    """local -> number of operand / borrow mentions in the whole body (destinations are not uses)"""
    from collections import Counter
    cnt = Counter()

    def base(p):
        return p if isinstance(p, int) else (p[0] if isinstance(p, list) and p and isinstance(p[0], int) else None)

    def walk(o):
        if isinstance(o, dict):
            for k, v in o.items():
                if k in ("m", "c") or (k == "p" and o.get("k") in ("ref", "addr", "len", "discr", "copy")):
                    b = base(v)
                    if b is not None:
                        cnt[b] += 1
                        continue
                if k in ("d", "ln", "f"):
                    continue
                walk(v)
        elif isinstance(o, list):
            for v in o:
                walk(v)
    for b in fn.bbs:
        walk(b["s"])
        walk({k: v for k, v in b["t"].items() if k not in ("d",)})
    return cnt


def _temp_in_place_hits(fn):
    defs = fn.defs()
    uses = None
    hits = []
    for bb, t in fn.calls():
        n = t["f"].get("name") or ""
        if not (n.endswith("_in_place") or n.endswith("_assign")) or not t["args"] or not isinstance(t["args"][0], dict):
            continue
        r = t["args"][0].get("m")
        if not isinstance(r, int) or len(defs.get(r, ())) != 1:
            continue
        d = defs[r][0]
        if d[2] != "assign" or d[3]["r"].get("k") != "ref" or not d[3]["r"].get("mut") or not isinstance(d[3]["r"].get("p"), int):
            continue
        tmp = d[3]["r"]["p"]
        td = defs.get(tmp, ())
        if len(td) != 1 or td[0][2] != "call" or td[0][3]["f"].get("name") != "clone":
            continue
        uses = uses or _local_uses(fn)
        dest = t["d"] if isinstance(t.get("d"), int) else None
        if uses[tmp] == 1 and uses[r] == 1 and dest != 0 and (dest is None or uses[dest] == 0):
            hits.append((n, t.get("ln")))
    return hits


def check_temp_in_place(res, facts, shapes):
    rule = res.rule("R-TEMPINPLACE", "no `_in_place` / `_assign` operation is applied to a temporary clone whose result is then discarded (the receiver stays unchanged while the function reports success)", 2)
    witness, n_fns, n_sites = {}, 0, 0
    for fn in shapes.fns(unit="shapes"):
        if fn.name in ("in_place_on_temporary", "in_place_on_temporary_ok"):
            witness[fn.name] = bool(_temp_in_place_hits(fn))
    for fn in facts.fns(unit="ws", crate="ark_ff"):
        if "::tests::" in fn.id or "::fields::" not in fn.id:
            continue
        n_fns += 1
        n_sites += sum(1 for _, t in fn.calls() if (t["f"].get("name") or "").endswith(("_in_place", "_assign")))
        for n, ln in _temp_in_place_hits(fn):
            rule.bad("ark_ff|%s|%s" % (fn.id[-90:], n), "`%s` is applied to a temporary clone and the result is dropped: the receiver is left as it was (e.g. x.inverse_in_place() reporting Some(x) with x unchanged)" % n, fn.loc)
    if witness.get("in_place_on_temporary") is True and witness.get("in_place_on_temporary_ok") is False:
        rule.ok("witness|in_place_on_temporary", "positive example matched, stored-back twin accepted")
        rule.ok("witness|scan", "%d field functions, %d in-place call sites scanned" % (n_fns, n_sites))
    else:
        rule.bad("witness|in_place_on_temporary", "the positive example in /verif/witness/shapes was not matched (or its twin was): rule has gone blind (%s)" % witness)
