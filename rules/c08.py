"""C08 — univariate polynomial arithmetic on canonical representations: structural clauses.

  R-CANON.dense   typestate: after any write access to the coefficient vector of a DensePolynomial
                  (direct `&mut x.coeffs`, `DerefMut`, struct literal) every path to the normal return
                  passes a canonicalisation of that value (the strip-leading-zeros loop, a helper that
                  contains it, or `from_coefficients_vec`).  Exemptions are a frozen table with reasons.
  R-CANON.sparse  every term pushed into a SparsePolynomial whose coefficient is the result of an
                  arithmetic operation is pushed only on the non-zero arm of an `is_zero` test.
  R-DIV           divide_with_q_and_r: the zero-divisor panic and the zero/low-degree early results
                  precede any arithmetic; the loop is left only when the remainder is zero or of lower
                  degree (loop guard calls degree() on both operands).
  R-LINCOMB       (see rules/lincomb.py) operators defined through other operators compute the stated
                  linear combination.
"""
from arklib import dataflow as DF
from arklib.facts import place_parts, op_local, op_place, closure_args
from rules import lincomb

DENSE = "ark_poly::polynomial::univariate::dense::DensePolynomial"
SPARSE = "ark_poly::polynomial::univariate::sparse::SparsePolynomial"

# (trait suffix or fn name, reason) — functions whose write access cannot create a leading zero
EXEMPT = {
    "core::ops::arith::Neg::neg": "negation maps non-zero coefficients to non-zero coefficients",
    "core::ops::deref::DerefMut::deref_mut": "public escape hatch handing out &mut [F]; canonical form is the caller's obligation (documented Deref API), not an operator result",
    "core::clone::Clone::clone_from": "derived: copies a canonical value",
}


def field_names(place):
    l, projs = place_parts(place)
    return l, [p[2] for p in projs if isinstance(p, list) and p[0] == "f"]


def is_dense_ty(t):
    return DENSE + "<" in t


_FACTS = None


def canon_blocks(fn):
    """blocks that start the strip-leading-zeros loop: a `last()` call lying on a cycle with a `pop()` call"""
    lasts = [bb for bb, t in fn.calls() if t["f"].get("name") == "last"]
    pops = [bb for bb, t in fn.calls() if t["f"].get("name") == "pop"]
    out = set()
    for l in lasts:
        r = fn.reachable_from(l)
        for p in pops:
            if p in r and l in fn.reachable_from(p):
                out.add(l)
    # the same canonicalisation without a loop: truncate(position of the last non-zero coefficient + 1)
    truncs = [(bb, t) for bb, t in fn.calls() if t["f"].get("name") == "truncate" and len(t["args"]) == 2]
    if truncs:
        dep = DF.Dep(fn)
        for bb, t in truncs:
            l = op_local(t["args"][1])
            names = {c["f"].get("name") for _, c in dep.calls_in_slice([l])} if l is not None else set()
            if names & {"rposition", "rfind", "position", "rev"} and (names & {"rposition", "rfind"} or {"position", "rev"} <= names):
                searches_nonzero = False
                for _, c in dep.calls_in_slice([l]):
                    if c["f"].get("name") in ("rposition", "rfind", "position"):
                        for cid in closure_args(fn, c):
                            clo = _FACTS.get(cid, fn.unit) if _FACTS is not None else None
                            if clo is not None and any(cc["f"].get("name") == "is_zero" for _, cc in clo.calls()):
                                searches_nonzero = True
                if searches_nonzero:
                    out.add(bb)
    return out


def summarise_canonicalisers(facts):
    """functions taking &mut DensePolynomial that canonicalise it on every path"""
    global _FACTS
    _FACTS = facts
    out = set()
    for fn in facts.fns(unit="ws", crate="ark_poly"):
        if fn.kind == "Closure" or fn.d["argc"] != 1:
            continue
        if not (fn.local_ty(1).startswith("&mut") and is_dense_ty(fn.local_ty(1))):
            continue
        cb = canon_blocks(fn)
        if cb and not fn.can_reach_exit_avoiding(0, cb):
            out.add(fn.id)
    return out


def summarise_constructors(facts, canonicalisers):
    """functions returning a DensePolynomial that is canonicalised on every path after construction"""
    out = set()
    for fn in facts.fns(unit="ws", crate="ark_poly"):
        if fn.kind == "Closure" or not is_dense_ty(fn.local_ty(0)):
            continue
        san = sanitizer_blocks(fn, canonicalisers, set())
        aggs = [bi for bi, si, s in fn.stmts() if s.get("r", {}).get("k") == "agg" and s["r"].get("adt") == DENSE]
        if aggs and san and all(not fn.can_reach_exit_avoiding(a, san) for a in aggs):
            out.add(fn.id)
    return out


def sanitizer_blocks(fn, canonicalisers, constructors):
    san = set(canon_blocks(fn))
    for bb, t in fn.calls():
        f = t["f"]
        tgt = f.get("res") or f.get("path")
        if tgt in canonicalisers or f.get("path") in canonicalisers:
            san.add(bb)
        if f.get("name") in ("from_coefficients_vec", "from_coefficients_slice") and (f.get("self_head") == DENSE or DENSE in (f.get("self") or "") or DENSE in f.get("path", "")):
            san.add(bb)
    return san


def exempt_reason(fn):
    tr = fn.trait_impl
    if tr:
        k = "%s::%s" % (tr, fn.name)
        if k in EXEMPT:
            return EXEMPT[k]
    if fn.impl and fn.impl.get("derived"):
        return "automatically derived impl (Clone/serialization), not an arithmetic operator"
    if tr and tr.startswith("ark_serialize::"):
        return "serialization impl, not an arithmetic operator (C18 covers the byte layout)"
    if tr == "core::ops::arith::Mul" and fn.name == "mul" and not any("Polynomial" in a for a in (fn.impl.get("trait_args") or [])[1:]):
        return "scalar multiplication: taken only on the arm where the scalar is non-zero; a field has no zero divisors"
    return None


def check_dense(res, facts):
    rule = res.rule("R-CANON.dense", "every write access to a DensePolynomial's coefficients is followed, on every path to the normal return, by a canonicalisation of that polynomial", 14)
    canonicalisers = summarise_canonicalisers(facts)
    constructors = summarise_constructors(facts, canonicalisers)
    if not canonicalisers:
        rule.bad("ark_poly|anchor", "no canonicalising helper (strip-leading-zeros loop over &mut DensePolynomial) found: anchor missing")
    n_src = 0
    for fn in facts.fns(unit="ws", crate="ark_poly"):
        if "::tests::" in fn.id or "::test::" in fn.id:
            continue
        owner = fn
        sources = []   # (bb, kind, base local)
        for bi, si, s in fn.stmts():
            r = s.get("r")
            if not r:
                continue
            if r["k"] == "ref" and r.get("mut"):
                l, names = field_names(r["p"])
                if "coeffs" in names and is_dense_ty(fn.local_ty(l)):
                    sources.append((bi, "borrow-coeffs", l))
            elif r["k"] == "agg" and r.get("adt") == DENSE:
                # literal construction: canonical only if the vector is freshly empty
                o = r["ops"][0] if r["ops"] else None
                l = op_local(o) if o else None
                fresh = False
                if l is not None:
                    ds = fn.defs().get(l, [])
                    fresh = len(ds) == 1 and ds[0][2] == "call" and ds[0][3]["f"].get("name") == "new" and "alloc::vec::Vec" in ds[0][3]["f"].get("path", "")
                if not fresh:
                    sources.append((bi, "literal", place_parts(s["d"])[0]))
        for bb, t in fn.calls():
            f = t["f"]
            if f.get("name") == "deref_mut" and f.get("trait", "").endswith("DerefMut") and is_dense_ty(f.get("self", "")):
                sources.append((bb, "deref_mut", op_local(t["args"][0])))
        if not sources:
            continue
        why = exempt_reason(fn)
        key = "%s|%s" % (fn.crate, fn.id)
        if fn.id in canonicalisers:
            rule.ok(key, "is the canonicaliser", fn.loc)
            continue
        # scalar multiplication guarded by non-zero tests: Mul<F>
        if why:
            rule.ok(key, "exempt: " + why, fn.loc)
            continue
        # does the value escape? (&mut self argument, or returned)
        escapes = is_dense_ty(fn.local_ty(0)) or "DensePolynomial" in fn.local_ty(0) or any(
            fn.local_ty(a).startswith("&mut") and is_dense_ty(fn.local_ty(a)) for a in range(1, fn.d["argc"] + 1))
        if fn.kind == "Closure":
            escapes = False  # closures are judged through their parent
        if not escapes:
            rule.ok(key, "constructed value does not escape as a DensePolynomial (%s)" % fn.local_ty(0)[:60], fn.loc)
            continue
        san = sanitizer_blocks(fn, canonicalisers, constructors)
        bad = []
        for bb, kind, l in sources:
            n_src += 1
            if bb in san:
                continue
            if fn.can_reach_exit_avoiding(bb, san):
                ln = None
                bad.append((bb, kind))
        if bad:
            kinds = sorted({k for _, k in bad})
            rule.bad(key, "coefficients are written (%s) and a path reaches the normal return without stripping leading zeros: a cancelled leading term leaves a non-canonical polynomial (degree() asserts, equality fails)" % ",".join(kinds), fn.loc)
        else:
            rule.ok(key, "%d write site(s), all followed by canonicalisation" % len(sources), fn.loc)
    res.notes.append("dense canonicalisers: %s; constructors: %d; write sites examined: %d" % (sorted(c.rsplit('::', 1)[-1] for c in canonicalisers), len(constructors), n_src))


def check_sparse(res, facts):
    rule = res.rule("R-CANON.sparse", "a computed coefficient is pushed into a SparsePolynomial only on the non-zero arm of an is_zero test", 1)
    for fn in facts.fns(unit="ws", crate="ark_poly"):
        if "::tests::" in fn.id or fn.kind == "Closure":
            continue
        # a term-list helper of the sparse module (e.g. a merge of two sorted term lists returning Vec<(usize, F)>) is a host too
        helper = "::univariate::sparse::" in fn.id and fn.local_ty(0).startswith("alloc::vec::Vec<(usize,")
        if SPARSE not in " ".join(fn.d["locals"][:3]) and not helper:
            continue
        pushes = [(bb, t) for bb, t in fn.calls() if t["f"].get("name") == "push" and "alloc::vec::Vec" in t["f"].get("path", "")]
        if not pushes:
            continue
        dep = DF.Dep(fn)
        cd = DF.control_deps(fn)
        for bb, t in pushes:
            # is the vector part of a SparsePolynomial?
            v = op_local(t["args"][0])
            tgt = dep.pointee.get(v, set()) | {v}
            in_sparse = any(SPARSE + "<" in fn.local_ty(x) for x in tgt)
            # a scratch Vec<(usize, F)> in a function that produces a SparsePolynomial counts as well
            produces = SPARSE + "<" in fn.local_ty(0) or any(fn.local_ty(a).startswith("&mut") and SPARSE + "<" in fn.local_ty(a) for a in range(1, fn.d["argc"] + 1))
            scratch = (produces or helper) and any("alloc::vec::Vec<(usize," in fn.local_ty(x) for x in tgt)
            if not (in_sparse or scratch):
                continue
            item = op_local(t["args"][1])
            arith = [c for c in dep.calls_in_slice([item]) if c[1]["f"].get("trait", "").startswith("core::ops::arith::") and c[1]["f"].get("name") in ("add", "sub", "mul")]
            # only arithmetic feeding *this* pushed tuple directly: restrict to single-def chain
            direct = direct_arith(fn, item)
            key = "%s|%s|push@%s" % (fn.crate, fn.id, "computed" if direct else "copied")
            if not direct:
                rule.ok(key, "pushes a term copied from an operand", fn.loc)
                continue
            guarded = False
            # the value whose zero-ness matters: result local(s) of the producing arithmetic call
            produced = arith_result_locals(fn, item)
            for (sw, succ) in transitive_cd(cd, bb):
                o = fn.bbs[sw]["t"].get("o")
                l = op_local(o) if o else None
                if l is None:
                    continue
                for _, c in dep.calls_in_slice([l]):
                    if c["f"].get("name") != "is_zero" or not c["args"]:
                        continue
                    al = op_local(c["args"][0])
                    if al is not None and (dep.slice([al]) & produced):
                        guarded = True
            if not guarded and zero_filter_after(facts, fn, bb):
                guarded = True      # pushed unconditionally, zero terms removed afterwards (retain / filter with an is_zero closure)
            if guarded:
                rule.ok(key, "guarded by is_zero", fn.loc)
            else:
                rule.bad(key, "a coefficient computed by %s is pushed without a zero test: cancelling terms leave an explicit zero term (non-canonical sparse polynomial)" % direct, fn.loc)


def zero_filter_after(facts, fn, bb):
    """a retain / filter call reachable from the push whose closure calls is_zero"""
    reach = fn.reachable_from(bb)
    for b2, t in fn.calls():
        if b2 not in reach or t["f"].get("name") not in ("retain", "filter", "retain_mut"):
            continue
        for cid in closure_args(fn, t):
            clo = facts.get(cid, fn.unit)
            if clo is not None and any(c["f"].get("name") == "is_zero" for _, c in clo.calls()):
                return True
    return False


def direct_arith(fn, local, depth=6):
    """name of the arithmetic call that directly produces (a component of) `local`, following copies and aggregates"""
    defs = fn.defs()
    seen = set()
    st = [local]
    while st and depth:
        l = st.pop()
        if l in seen:
            continue
        seen.add(l)
        for d in defs.get(l, []):
            if d[2] == "call":
                f = d[3]["f"]
                if f.get("trait", "").startswith("core::ops::arith::") and f.get("name") in ("add", "sub", "mul", "neg"):
                    return f.get("name")
            elif d[2] == "assign":
                r = d[3]["r"]
                for o in (r.get("ops") or ([r["o"]] if "o" in r else [])):
                    x = op_local(o)
                    if x is not None:
                        st.append(x)
        depth -= 0
    return None


def arith_result_locals(fn, local):
    """locals holding the result of the arithmetic call(s) that directly feed `local`"""
    defs = fn.defs()
    out = set()
    seen = set()
    st = [local]
    while st:
        l = st.pop()
        if l in seen:
            continue
        seen.add(l)
        for d in defs.get(l, []):
            if d[2] == "call":
                f = d[3]["f"]
                if f.get("trait", "").startswith("core::ops::arith::") and f.get("name") in ("add", "sub", "mul", "neg"):
                    out.add(l)
            elif d[2] == "assign":
                r = d[3]["r"]
                for o in (r.get("ops") or ([r["o"]] if "o" in r else [])):
                    x = op_local(o)
                    if x is not None:
                        st.append(x)
    return out


def transitive_cd(cd, bb):
    seen = set()
    out = set()
    st = [bb]
    while st:
        x = st.pop()
        for (a, s) in cd.get(x, ()):
            if (a, s) not in out:
                out.add((a, s))
                if a not in seen:
                    seen.add(a)
                    st.append(a)
    return out


def check_div(res, facts):
    rule = res.rule("R-DIV", "divide_with_q_and_r: zero-divisor panic and early results precede the arithmetic; the division loop guard compares the degrees of remainder and divisor", 1)
    fns = [f for f in facts.fns(unit="ws", crate="ark_poly") if f.name == "divide_with_q_and_r"]
    for fn in fns:
        key = "ark_poly|%s" % fn.id
        names = [(bb, t["f"].get("name")) for bb, t in fn.calls()]
        panics = [bb for bb, n in names if n in ("panic", "panic_fmt", "begin_panic", "panic_display", "panic_str_2015", "panic_explicit")]
        inv = [bb for bb, n in names if n == "inverse"]
        iszero = [bb for bb, n in names if n == "is_zero"]
        if not panics:
            rule.bad(key, "no panic on a zero divisor", fn.loc)
            continue
        if not inv:
            rule.undecided(key, "no inverse() call found", fn.loc)
            continue
        # every inverse() call is dominated by two is_zero tests (dividend, divisor)
        ok = all(sum(1 for z in iszero if fn.dominates(z, i)) >= 2 for i in inv)
        # loop guard: some block on a cycle calls degree() twice / is_zero
        deg_cycle = [bb for bb, n in names if n == "degree" and bb in fn.reachable_from(bb, frozenset()) and any(bb in fn.reachable_from(s) for s in fn.succ()[bb])]
        if ok and len(deg_cycle) >= 2:
            rule.ok(key, "zero tests dominate the leading-coefficient inversion; loop guard re-evaluates degree() of both operands", fn.loc)
        elif not ok:
            rule.bad(key, "the divisor's leading coefficient is inverted without both zero tests dominating it", fn.loc)
        else:
            rule.bad(key, "division loop does not re-evaluate the degrees of remainder and divisor", fn.loc)


# ---- R-COSETFOLD -------------------------------------------------------------------------------------------

def check_cosetfold(res, facts):
    """evaluating a polynomial longer than the domain over the coset h*H folds coefficient chunk k (k >= 1) into the
    first chunk with multiplier h^(k*size) (because x^size = h^size on the coset).  Both arms (borrowed / owned) must
    use that multiplier: either in closed form offset^((i+1)*size) or as a running power started at offset^size and
    advanced by offset^size."""
    from rules.c07 import E, show, A, C, qeq
    from rules.c17 import to_q, NotPoly
    from arklib.poly import Q
    from arklib.facts import closure_args, place_parts
    rule = res.rule("R-COSETFOLD", "evaluate_over_domain: coefficient chunk k is folded with multiplier offset^(k*size) in both the borrowed and the owned arm", 2)
    fns = [f for f in facts.fns(unit="ws", crate="ark_poly") if f.kind != "Closure" and f.name == "eval_over_domain_helper"]
    if not fns:
        rule.bad("ark_poly|eval_over_domain_helper", "anchor missing")
        return
    fn = fns[0]
    offset, size = C("coset_offset", A(2)), C("size", A(2))
    from rules.c07 import norm
    E = lambda f_, o_: norm(DF.expr(f_, o_, depth=40, mut_as_phi=True))
    sites = []
    hosts = [(fn, None, None)] + [(c, t_, {j + 1: E(fn, a) for j, a in enumerate(t_["args"])}) for _, t_, c in DF.local_callees(facts, fn)]
    for host, call_t, amap in hosts:
        for bb, t in host.calls():
            if t["f"].get("name") != "for_each":
                continue
            env = E(host, t["args"][1])
            if not (isinstance(env, tuple) and env[0] == "agg" and len(env[2]) == 1):
                continue
            src = E(host, t["args"][0])
            mult = env[2][0]
            if amap is not None:
                src = DF.subst_args(src, amap)
                mult = norm(DF.subst_args(mult, amap))
            arm = "owned" if "chunks_mut" in show(src) else "borrowed"
            sites.append((bb, arm, mult, t, host))
    if len(sites) != 2:
        rule.bad("ark_poly|eval_over_domain_helper", "expected two scaled folds (borrowed and owned arm), found %d" % len(sites), fn.loc)
        return

    def expo(t, idx_names):
        e = Q.const(1)

        def leaf(x):
            if x == size or x == ("pow-size",):
                return "n"
            if isinstance(x, tuple) and x[0] == "call" and x[1] == "next" and len(x) > 3 and x[3] == ("0", "0"):
                return "i"
            return "<%s>" % show(x)[:60]
        while isinstance(t, tuple) and t[0] == "pow":
            e = e * to_q(t[2], leaf)
            t = t[1]
        if t == C("coset_offset_pow_size", A(2)):
            return offset, e * Q.var("n")
        return t, e
    for bb, arm, mult, t, host in sites:
        key = "ark_poly|eval_over_domain_helper|%s" % arm
        # the closure multiplies the chunk element by its capture
        ok_clo = False
        for cid in closure_args(host, t):
            clo = facts.get(cid, host.unit)
            if clo is None:
                continue
            calls = [(ct["f"].get("name"), [E(clo, a) for a in ct["args"]]) for _, ct in clo.calls()]
            ok_clo = any(n == "add_assign" and a[0] == A(2, "0") and a[1] in (C("mul", A(1, "0"), A(2, "1")), C("mul", A(2, "1"), A(1, "0"))) for n, a in calls)
        if not ok_clo:
            rule.bad(key, "fold closure is not *x += multiplier * y", fn.loc)
            continue
        try:
            if isinstance(mult, tuple) and mult[0] == "phi":
                # running power: initial value and in-loop update
                loc = mult[1]
                inits, steps = [], []
                for d in fn.defs().get(loc, []):
                    if d[2] == "assign" and d[3]["r"]["k"] == "use":
                        inits.append(E(fn, d[3]["r"]["o"]))
                for b2, t2 in fn.calls():
                    if t2["f"].get("name") == "mul_assign" and E(fn, t2["args"][0]) == mult:
                        steps.append(E(fn, t2["args"][1]))
                good = len(inits) == 1 and len(steps) == 1
                if good:
                    b0, e0 = expo(inits[0], {})
                    b1, e1 = expo(steps[0], {})
                    good = b0 == offset and b1 == offset and qeq(e0, Q.var("n")) and qeq(e1, Q.var("n"))
                if good:
                    rule.ok(key, "running power: starts at offset^size, advanced by offset^size per chunk", fn.loc)
                else:
                    rule.bad(key, "running multiplier starts at %s and is advanced by %s per chunk; chunk k needs offset^(k*size), i.e. start offset^size and step offset^size" % ([show(x) for x in inits], [show(x) for x in steps]), fn.loc)
            else:
                b, e = expo(mult, {})
                want = (Q.var("i") + Q.const(1)) * Q.var("n")
                if b == offset and qeq(e, want):
                    rule.ok(key, "multiplier offset^((i+1)*size)", fn.loc)
                else:
                    rule.bad(key, "chunk i+1 is folded with %s (exponent %s of %s); it needs offset^((i+1)*size)" % (show(mult)[:160], e, show(b)[:60]), fn.loc)
        except NotPoly as ex:
            rule.undecided(key, "multiplier exponent not polynomial: %s" % ex, fn.loc)


# ---- R-VANISHDEP -------------------------------------------------------------------------------------------

def check_vanishdep(res, facts):
    """The vanishing polynomial of a domain is X^size - offset^size (EvaluationDomain::vanishing_polynomial).  A function
    that multiplies / divides by "the domain's vanishing polynomial" but observes only `size()` of its domain argument
    computes with X^size - 1 for every domain, which is wrong for cosets: it must read the offset (or the constant
    term offset^size, or the vanishing polynomial itself) and that value must reach the coefficient arithmetic."""
    from rules.c07 import E, show, A, C
    from arklib.facts import closure_args
    rule = res.rule("R-VANISHDEP", "mul_by_vanishing_poly / divide_by_vanishing_poly use the domain's constant term offset^size, not only its size", 2)
    for name in ("mul_by_vanishing_poly", "divide_by_vanishing_poly"):
        fs = [f for f in facts.fns(unit="ws", crate="ark_poly") if f.kind != "Closure" and f.name == name and "univariate::dense" in f.id]
        key = "ark_poly|DensePolynomial::%s" % name
        if not fs:
            rule.bad(key, "anchor missing")
            continue
        f = fs[0]
        observed = sorted({t["f"].get("name") for _, t in f.calls() if t["args"] and E(f, t["args"][0]) == A(2) and (t["f"].get("trait") or "").endswith("EvaluationDomain")})
        uses = [n for n in observed if n in ("coset_offset_pow_size", "coset_offset", "vanishing_polynomial", "evaluate_vanishing_polynomial")]
        if not uses:
            rule.bad(key, "the only property of the domain that is read is %s: the polynomial used is X^size - 1 for every domain, but a coset domain's vanishing polynomial is X^size - offset^size (EvaluationDomain::vanishing_polynomial), so the result is wrong for cosets" % observed, f.loc)
            continue
        # the constant must weight the coefficient updates: mul: s -= c0*c ; divide: quotient block i weighted by c0^i
        # (running power started at c0, advanced by c0), remainder += c0 * quotient
        from rules.c07 import norm
        EM = lambda f_, o_: norm(DF.expr(f_, o_, depth=40, mut_as_phi=True))
        c0 = C("coset_offset_pow_size", A(2))
        problems = []
        fes = [(bb, t) for bb, t in f.calls() if t["f"].get("name") == "for_each"]
        kinds = []
        for bb, t in fes:
            env = EM(f, t["args"][1])
            cap = env[2][0] if isinstance(env, tuple) and env[0] == "agg" and len(env[2]) == 1 else None
            op = None
            for cid in closure_args(f, t):
                clo = facts.get(cid, f.unit)
                if clo is None:
                    continue
                for _, ct in clo.calls():
                    if ct["f"].get("name") in ("add_assign", "sub_assign"):
                        a0, a1 = E(clo, ct["args"][0]), E(clo, ct["args"][1])
                        if a0 == A(2, "0") and a1 in (C("mul", A(1, "0"), A(2, "1")), C("mul", A(2, "1"), A(1, "0"))):
                            op = ct["f"].get("name")
            if cap == c0:
                kinds.append((op, "c0"))
            elif isinstance(cap, tuple) and cap[0] == "phi":
                inits = [EM(f, d[3]["r"]["o"]) for d in f.defs().get(cap[1], []) if d[2] == "assign" and d[3]["r"]["k"] == "use"]
                steps = [EM(f, t2["args"][1]) for _, t2 in f.calls() if t2["f"].get("name") == "mul_assign" and EM(f, t2["args"][0]) == cap]
                kinds.append((op, "running" if inits == [c0] and steps == [c0] else "running?%s/%s" % ([show(x) for x in inits], [show(x) for x in steps])))
            else:
                kinds.append((op, show(cap) if cap is not None else None))
        if name == "mul_by_vanishing_poly":
            if kinds != [("sub_assign", "c0")]:
                problems.append("coefficient update is %s, expected shifted[i] -= offset^size * coeff[i]" % kinds)
        else:
            if kinds != [("add_assign", "running"), ("add_assign", "c0")]:
                problems.append("updates are %s, expected quotient += (running power offset^(size*i)) * block_i and remainder += offset^size * quotient" % kinds)
        (rule.bad if problems else rule.ok)(key, "; ".join(problems) if problems else ("shifted - offset^size * p" if name.startswith("mul") else "quotient blocks weighted by offset^(size*i); remainder = low part + offset^size * quotient"), f.loc)


def check_evalpaths(res, facts):
    """Polynomial::evaluate (dense and sparse univariate): every value the function can return is the zero of the zero
    polynomial, the full sum over ALL stored coefficients, or -- for the dense form only, where coeffs[0] is the constant
    term -- coeffs[0] on the arm that has tested the point for zero.  A shortcut that returns a single stored entry of a
    sparse polynomial (whose first entry is its lowest, not necessarily constant, term) is a wrong value at that point."""
    from rules.c07 import E, show, norm, A, C
    rule = res.rule("R-EVALPATHS", "Polynomial::evaluate returns only zero (zero polynomial), the full sum over all coefficients, or the dense constant term at point 0", 2)
    for kind in ("dense", "sparse"):
        fs = [f for f in facts.fns(unit="ws", crate="ark_poly") if f.kind != "Closure" and f.name == "evaluate" and (".univariate::%s::" % kind).replace(".", "") in f.id.replace("polynomial::", "") and (f.trait_impl or "").endswith("Polynomial")]
        key = "ark_poly|univariate::%s::evaluate" % kind
        if not fs:
            rule.bad(key, "anchor missing")
            continue
        f = fs[0]
        r = DF.expr(f, {"c": 0}, depth=30)
        alts = DF.phi_alts(f, r) if isinstance(r, tuple) and r and r[0] == "phi" else [r]
        if not alts:
            rule.undecided(key, "return value has a partial definition", f.loc)
            continue
        guards = [show(E(f, b["t"]["o"])) for b in f.bbs if b["t"]["k"] == "switch"]
        problems, kinds = [], []
        for a in alts:
            a = norm(a)
            txt = show(a)
            full = (isinstance(a, tuple) and a[0] == "call" and ((a[1] in ("internal_evaluate", "horner_evaluate") and a[2][:1] == (A(1),)) or
                    (a[1] == "sum" and "iter(arg1.coeffs)" in txt and not any(x in txt for x in ("skip(", "take(", "step_by(", "filter(")))))
            if a == 0:
                kinds.append("zero")
                if "is_zero(arg1)" not in guards:
                    problems.append("returns zero without having tested the polynomial for zero")
            elif full:
                kinds.append("sum")
            elif kind == "dense" and a == C("index", A(1, "coeffs"), 0):
                kinds.append("const-term")
                if "is_zero(arg2)" not in guards:
                    problems.append("returns coeffs[0] without having tested the point for zero")
            else:
                problems.append("can return %s: %s" % (txt[:80], "the first stored term of a sparse polynomial is its lowest term, not its constant term -- for a polynomial without a degree-0 term this is not the value at the point" if kind == "sparse" and "coeffs" in txt else "neither the full sum over the coefficients nor an admitted special case"))
        if "sum" not in kinds:
            problems.append("no path returns the sum over all coefficients")
        (rule.bad if problems else rule.ok)(key, "; ".join(problems) if problems else "returns: %s" % ", ".join(kinds), f.loc)


def check_naivemul(res, facts, proved=False):
    """schoolbook product: result[i + j] += a_i * b_j over ALL i < len(a), j < len(b), into a zeroed table of
    deg(a) + deg(b) + 1 entries, handed to the canonicalising constructor (compared as index polynomials)"""
    from rules.c07 import E, show, A, C, qeq
    from rules.c17 import to_q, NotPoly
    from arklib.poly import Q
    rule = res.rule("R-NAIVEMUL", "DensePolynomial::naive_mul: result[i+j] += a_i * b_j over the full index ranges, deg(a)+deg(b)+1 entries", 1)
    fs = [f for f in facts.fns(unit="ws", crate="ark_poly") if f.kind != "Closure" and f.name == "naive_mul" and "univariate::dense" in f.id]
    key = "ark_poly|DensePolynomial::naive_mul"
    if not fs:
        rule.bad(key, "anchor missing")
        return
    f = fs[0]
    problems = []
    ia, ib = ("iter", 0, C("len", A(1, "coeffs"))), ("iter", 0, C("len", A(2, "coeffs")))
    names = {ia: "i", ib: "j"}
    accs = [t for _, t in f.calls() if t["f"].get("name") == "add_assign"]
    table = C("from_elem", 0, ("bin", "Add", ("bin", "Add", C("degree", A(1)), C("degree", A(2))), 1))
    tabs = [E(f, t["args"][1]) for _, t in f.calls() if t["f"].get("name") == "from_elem"]
    try:
        want_len = Q.var("da") + Q.var("db") + Q.const(1)
        lens = [to_q(x, lambda t_: {C("degree", A(1)): "da", C("degree", A(2)): "db"}.get(t_)) for x in tabs]
        if len(lens) != 1 or not qeq(lens[0], want_len):
            problems.append("the result table has %s entries, expected deg(a) + deg(b) + 1" % [str(x) for x in lens])
    except NotPoly as e:
        problems.append("table length is not an expression of the degrees: %s" % e)
    zipped = None
    if not accs:
        # second shape: for each i, `result[i..].iter_mut().zip(other.coeffs.iter()).for_each(|(acc, b)| *acc += a_i * b)`:
        # the k-th entry of the window starting at i is paired with b_k, i.e. index i + k
        from rules.c07 import norm
        for _, t in f.calls():
            if t["f"].get("name") == "for_each" and len(t["args"]) == 2:
                src = E(f, t["args"][0])
                cl = [facts.get(c_, f.unit) for c_ in closure_args(f, t)]
                cl = [c_ for c_ in cl if c_ is not None]
                win = ("call", "iter_mut", (("call", "index_mut", (C("from_elem", 0, tabs[0]) if tabs else None, ("agg", "RangeFrom", (ia,)))),))
                if cl and src == ("call", "zip", (win, C("iter", A(2, "coeffs")))):
                    ca = [tt for _, tt in cl[0].calls() if tt["f"].get("name") == "add_assign"]
                    if len(ca) == 1:
                        dst = norm(DF.lift_captures(facts, cl[0], DF.expr(cl[0], ca[0]["args"][0], depth=30)))
                        val = norm(DF.lift_captures(facts, cl[0], DF.expr(cl[0], ca[0]["args"][1], depth=30)))
                        a_i = C("index", A(1, "coeffs"), ia)
                        okd = isinstance(dst, tuple) and dst[0] == "cparam" and dst[3][:1] == ("0",)
                        okv = isinstance(val, tuple) and val[:2] == ("call", "mul") and a_i in val[2] and any(isinstance(x, tuple) and x[0] == "cparam" and x[3][:1] == ("1",) for x in val[2])
                        zipped = okd and okv
    if zipped:
        pass
    elif zipped is False:
        problems.append("the windowed accumulation does not add a_i * b_k into the k-th entry of result[i..]")
    elif len(accs) != 1:
        problems.append("expected one accumulation site, found %d" % len(accs))
    else:
        dst, val = E(f, accs[0]["args"][0]), E(f, accs[0]["args"][1])
        if not (isinstance(dst, tuple) and dst[:2] == ("call", "index_mut") and len(dst[2]) == 2):
            problems.append("accumulates into %s" % show(dst)[:80])
        else:
            try:
                if not qeq(to_q(dst[2][1], lambda t_: names.get(t_)), Q.var("i") + Q.var("j")):
                    problems.append("a_i * b_j is accumulated at index %s instead of i + j (i, j over all coefficients of a, b)" % show(dst[2][1])[:80])
            except NotPoly as e:
                problems.append("accumulation index is not an index polynomial of the two loop variables over the full coefficient ranges: %s" % e)
        wantv = (C("mul", C("index", A(1, "coeffs"), ia), C("index", A(2, "coeffs"), ib)), C("mul", C("index", A(2, "coeffs"), ib), C("index", A(1, "coeffs"), ia)))
        if val not in wantv:
            problems.append("the accumulated value is %s, expected a_i * b_j with i, j the loop variables" % show(val)[:100])
    if not any(t["f"].get("name") == "from_coefficients_vec" for _, t in f.calls()):
        problems.append("the result is not built by the canonicalising constructor")
    canon = not any("canonicalising constructor" in p_ for p_ in problems)
    if problems and proved and canon:
        # R-POLYARITH evaluated naive_mul for all 16 degree pairs and found the convolution: the loop template is then only
        # documentation of the pinned shape (the canonicalising constructor is still required here)
        rule.ok(key, "loop template not matched (%s); the product is proved equal to the convolution under R-POLYARITH" % "; ".join(problems)[:100], f.loc)
    else:
        (rule.bad if problems else rule.ok)(key, "; ".join(problems) if problems else "result[i+j] += a_i*b_j, i < len(a), j < len(b); deg(a)+deg(b)+1 entries; from_coefficients_vec", f.loc)


def run(ctx, res):
    facts = ctx.facts(["ws"])
    res.analysed = facts.stats()
    check_dense(res, facts)
    check_sparse(res, facts)
    check_div(res, facts)
    lincomb.check_poly_ops(res, facts)
    from rules import c08_arith
    proved = c08_arith.check_polyarith(res, facts)
    check_cosetfold(res, facts)
    check_vanishdep(res, facts)
    check_evalpaths(res, facts)
    check_naivemul(res, facts, "naive_mul" in (proved or ()))
    return {
        "level": "other",
        "explanation": "Typestate (must-pass-through) analysis over the MIR of ark-poly: every write access to a dense polynomial's coefficient vector must be followed on all paths by the strip-leading-zeros loop; computed sparse terms must be pushed under a non-zero guard; structure of division; operators defined through other operators evaluated symbolically as linear combinations of their operands. Does NOT decide coefficient-level results (loops over run-time lengths), FFT multiplication or evaluation.",
        "assumptions": ["inputs to an operator are canonical (the rule shows operators preserve canonical form)", "Neg and multiplication by a non-zero scalar cannot create a leading zero (field has no zero divisors)"],
    }
