"""Path enumeration over small MIR bodies with partial scalar evaluation.

Used for truth-table style rules: a helper's boolean decision structure is enumerated over a finite
set of abstract cases (e.g. value <, =, > modulus x carry in {0,1}); calls are answered by an oracle.
No concrete limb values are ever involved: the cases are orderings / flags, a finite abstraction.
"""
from .facts import place_parts, op_place, term_succs

UNKNOWN = None


class Alt:
    """oracle answer with several alternatives: [(value, tag), ...]; the path forks, tags accumulate"""
    def __init__(self, alts):
        self.alts = alts


class Adt:
    """oracle answer for an enum / tuple valued call: discriminant plus known payload fields"""
    def __init__(self, discr, fields=()):
        self.discr = discr
        self.fields = list(fields)


def _store_call(st, dl, val):
    st.refs.pop(dl, None)
    for kk in [kk for kk in st.env if isinstance(kk, tuple) and kk[0] == dl]:
        del st.env[kk]
    if isinstance(val, Adt):
        for i, f in enumerate(val.fields):
            if f is not UNKNOWN:
                st.env[(dl, i)] = f
        val = val.discr
    if val is UNKNOWN:
        st.env.pop(dl, None)
    else:
        st.env[dl] = val


class State:
    __slots__ = ("env", "refs", "trace", "calls", "visits", "tags")

    def __init__(self):
        self.tags = []
        self.env = {}      # local -> scalar (bool/int)
        self.refs = {}     # local -> local it points to
        self.trace = []    # blocks visited
        self.calls = []    # (bb, term) visited
        self.visits = {}

    def fork(self):
        s = State()
        s.env = dict(self.env)
        s.refs = dict(self.refs)
        s.trace = list(self.trace)
        s.calls = list(self.calls)
        s.visits = dict(self.visits)
        s.tags = list(self.tags)
        return s


def _operand(st, o):
    if "k" in o:
        k = o["k"]
        if "v" not in k and k.get("zst"):
            return 0      # unit-like value
        return k.get("v", UNKNOWN)
    p = op_place(o)
    l, projs = place_parts(p)
    if not projs:
        return st.env.get(l, UNKNOWN)
    if projs == ["*"] and l in st.refs:
        return st.env.get(st.refs[l], UNKNOWN)
    if projs == ["*"]:
        return st.env.get(l, UNKNOWN)
    if len(projs) == 1 and isinstance(projs[0], (list, tuple)) and projs[0][0] == "f":
        return st.env.get((l, projs[0][1]), UNKNOWN)
    if len(projs) == 2 and isinstance(projs[0], (list, tuple)) and projs[0][0] == "dc" and isinstance(projs[1], (list, tuple)) and projs[1][0] == "f":
        return st.env.get((l, projs[1][1]), UNKNOWN)
    return UNKNOWN


def _binop(op, a, b):
    try:
        if op == "Eq": return a == b
        if op == "Ne": return a != b
        if op == "Lt": return a < b
        if op == "Le": return a <= b
        if op == "Gt": return a > b
        if op == "Ge": return a >= b
        if op == "BitAnd": return (a and b) if isinstance(a, bool) and isinstance(b, bool) else a & b
        if op == "BitOr": return (a or b) if isinstance(a, bool) and isinstance(b, bool) else a | b
        if op == "BitXor": return (a != b) if isinstance(a, bool) and isinstance(b, bool) else a ^ b
        if op in ("Add", "AddUnchecked"): return a + b
        if op in ("Sub", "SubUnchecked"): return a - b
        if op in ("Shl", "ShlUnchecked"): return (a << b) & 0xFFFFFFFFFFFFFFFF
        if op in ("Shr", "ShrUnchecked"): return a >> b
        if op in ("Mul", "MulUnchecked"): return a * b
    except Exception:
        return UNKNOWN
    return UNKNOWN


def explore(fn, oracle, init=None, max_states=4000, max_visits=2, stop_at=None, by_type=None):
    """Enumerate paths from entry.  oracle(state, bb, term) -> scalar value of the call's destination
    (or UNKNOWN).  Returns list of (State, end) where end = 'return' | 'diverge' | 'cut' | ('stop', bb)."""
    out = []
    s0 = State()
    if init:
        s0.env.update(init)
    work = [(s0, 0)]
    n = 0
    while work:
        st, bb = work.pop()
        n += 1
        if n > max_states:
            out.append((st, "cut"))
            continue
        while True:
            v = st.visits.get(bb, 0)
            if v >= max_visits:
                out.append((st, "cut"))
                break
            st.visits[bb] = v + 1
            st.trace.append(bb)
            b = fn.bbs[bb]
            for s in b["s"]:
                if "d" not in s:
                    continue
                dl, dprojs = place_parts(s["d"])
                if dprojs:
                    if dprojs == ["*"] and dl in st.refs:
                        dl = st.refs[dl]
                    else:
                        continue
                r = s["r"]
                k = r["k"]
                val = UNKNOWN
                st.refs.pop(dl, None)
                if k == "use":
                    val = _operand(st, r["o"])
                    sl = op_place(r["o"])
                    if sl is not None:
                        l2, p2 = place_parts(sl)
                        if not p2 and l2 in st.refs:
                            st.refs[dl] = st.refs[l2]
                        if not p2:
                            for kk in [kk for kk in st.env if isinstance(kk, tuple) and kk[0] == l2]:
                                st.env[(dl, kk[1])] = st.env[kk]
                elif k == "un" and r["op"] == "Not":
                    x = _operand(st, r["o"])
                    if isinstance(x, bool):
                        val = not x
                elif k == "bin":
                    a, c = _operand(st, r["a"]), _operand(st, r["b"])
                    if a is not UNKNOWN and c is not UNKNOWN:
                        val = _binop(r["op"], a, c)
                elif k == "cast":
                    val = _operand(st, r["o"])
                    if isinstance(val, bool):
                        val = int(val)
                elif k == "ref":
                    pl, pp = place_parts(r["p"])
                    if not pp:
                        st.refs[dl] = pl
                    elif pp == ["*"] and pl in st.refs:
                        st.refs[dl] = st.refs[pl]
                elif k == "discr":
                    pl, pp = place_parts(r["p"])
                    if not pp:
                        val = st.env.get(pl, UNKNOWN)
                    elif pp == ["*"] and pl in st.refs:
                        val = st.env.get(st.refs[pl], UNKNOWN)
                    elif pp == ["*"]:
                        # reference parameter holding an enum: the caller supplies its discriminant directly
                        val = st.env.get(pl, UNKNOWN)
                elif k == "agg" and r.get("ak") == "adt" and r.get("vidx") is not None:
                    # enums are abstracted to their discriminant (bits as compared by SwitchInt)
                    val = r.get("dv", r["vidx"])
                    for oi, oo in enumerate(r.get("ops", [])):
                        ov = _operand(st, oo)
                        if ov is not UNKNOWN:
                            st.env[(dl, oi)] = ov
                        else:
                            st.env.pop((dl, oi), None)
                elif k == "agg" and r.get("ak") == "tuple":
                    for oi, oo in enumerate(r.get("ops", [])):
                        ov = _operand(st, oo)
                        if ov is not UNKNOWN:
                            st.env[(dl, oi)] = ov
                        else:
                            st.env.pop((dl, oi), None)
                    val = UNKNOWN
                if val is UNKNOWN and by_type:
                    # world assumption by type: every value of this type is the world's value (e.g. "the flags are X")
                    val = by_type.get(fn.local_ty(dl), UNKNOWN)
                if val is UNKNOWN:
                    st.env.pop(dl, None)
                else:
                    st.env[dl] = val
            t = b["t"]
            tk = t["k"]
            if stop_at is not None and bb in stop_at:
                out.append((st, ("stop", bb)))
                break
            if tk == "return":
                out.append((st, "return"))
                break
            if tk == "goto":
                bb = t["t"]
                continue
            if tk == "call":
                st.calls.append((bb, t))
                val = oracle(st, bb, t)
                dl, dprojs = place_parts(t["d"])
                if val is UNKNOWN and by_type and not dprojs:
                    val = by_type.get(fn.local_ty(dl), UNKNOWN)
                if isinstance(val, Alt):
                    if t.get("t") is None:
                        out.append((st, "diverge"))
                        break
                    for v2, tag in val.alts[1:]:
                        s2 = st.fork()
                        s2.tags.append((bb, tag))
                        if not dprojs:
                            _store_call(s2, dl, v2)
                        work.append((s2, t["t"]))
                    val, tag = val.alts[0]
                    st.tags.append((bb, tag))
                if not dprojs:
                    _store_call(st, dl, val)
                if t.get("t") is None:
                    out.append((st, "diverge"))
                    break
                bb = t["t"]
                continue
            if tk == "switch":
                v = _operand(st, t["o"])
                if v is not UNKNOWN:
                    iv = int(v) & ((1 << 128) - 1) if not isinstance(v, bool) else int(v)
                    tgt = t["else"]
                    for val, tg in zip(t["vals"], t["tgts"]):
                        if val == iv:
                            tgt = tg
                    bb = tgt
                    continue
                succs = term_succs(t)
                for s2 in succs[1:]:
                    work.append((st.fork(), s2))
                bb = succs[0]
                continue
            if tk in ("assert", "drop"):
                bb = t["t"]
                continue
            out.append((st, "diverge"))
            break
    return out
